"""The reference loader as a service: a batch of (dialect, text) goes to TLC (spec/Trace_Load.tla),
one outcome per text comes back."""
import json, os
from concurrent.futures import ThreadPoolExecutor
from . import tlc, loaders
from .common import chunks


def ref_load(ctx, rep, items, gaps=False, batch=1500, name="Trace_Load", workers=4, par=4):
    """items: list of (dialect, text).  Returns list of (outcome, spans) in order."""
    batches = list(chunks(list(enumerate(items)), batch))

    def one(args):
        bi, b = args
        path = os.path.join(ctx.scratch, "refload%d_%d.json" % (id(items) % 100000, bi))
        with open(path, "w") as f:
            json.dump([{"d": d, "text": [ord(c) for c in t], "gaps": gaps} for _, (d, t) in b], f)
        r = tlc.run("Trace_Load", "Trace_Load.cfg", workers=workers, scratch=ctx.scratch, env={"TRACE_FILE": path},
                    xss="512m", heap="8g", timeout=6000)
        os.unlink(path)
        return r
    with ThreadPoolExecutor(par) as ex:
        results = list(ex.map(one, enumerate(batches)))
    out = [None] * len(items)
    for b, r in zip(batches, results):
        rep.tlc(name + " batch (reference loader on %d texts)" % len(b), r)
        verdicts = {v["i"]: v for v in r.printed if "i" in v}
        if len(verdicts) != len(b):
            raise RuntimeError("Trace_Load returned %d outcomes for %d texts\n%s" % (len(verdicts), len(b), r.raw[-2000:]))
        for k, (idx, _) in enumerate(b, 1):
            o = loaders.ref_outcome(verdicts[k]["o"])
            o["locus"] = o.get("why", "")
            out[idx] = (o, verdicts[k].get("spans", []))
    return out
