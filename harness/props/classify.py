"""Classification conformance shared by C17 (mutual consistency) and C03 (agreement with the reference
classes): TLC enumerates token texts (spec/MC_Class.tla) and lexicon mutations, the harness records the
library's predicates / decoder / encoder behaviour for each (dialect, text), TLC judges every record
with spec/Trace_Class.tla."""
import datetime, json, os, warnings
from .. import tlc, loaders
from ..common import pool_map, chunks

_G = {}
LEXICON = ["NULL", "Null", "null", "TRUE", "true", "False", "END", "end", "End", "END_GROUP", "End_Group", "GROUP",
           "group", "BEGIN_GROUP", "OBJECT", "Object", "BEGIN_OBJECT", "END_OBJECT", "inf", "-inf", "nan", "NaN",
           "infinity", "1_0", ".1_0", "1", "-1", "+1", "007", "1.", ".5", "1.5", "-1.5e+5", "1E5", "-.5e-5", "1e", "e5",
           "2#101#", "-2#101#", "+2#101#", "2#-101#", "2#+101#", "3#12#", "16#fF#", "16#FF#", "8#777#", "8#8#", "2#2#",
           "17#1#", "2001-01-01", "2001-366", "2000-366", "2001-001", "2001-13-01", "2001-02-30", "0000-01-01",
           "12:00", "12:00:00", "12:00:60", "23:59:60.5", "24:00", "12:60", "12:00:00.123456", "12:00:00.1234567",
           "12:00Z", "12:00+01", "12:00-01", "12:00+01:30", "12:00+13", "2001-01-01T12:00", "2001-01-01T12:00:00.5Z",
           "2001-001T12:00:60", "2001-01-01T12:00-05:30", "2001-01-01T", "T12:00", "-", "+", "--", "a", "a_b", "a-b",
           "N/A", "a:b", "^P", "ns:k", "x+y", "a_", "_a", "9a", "a.b", "'abc'", "\"a b\"", "'a", "''", "\"\"",
           "<m>", "/*", "*/", "a/*b", "#", "a#b", "&", "é", "a\xa0b", "1.5E+3", "1E+5", "-1e+16", "-2.5E-20", "1e+308", "1e+309", "sNaN", "-sNaN"]
# judged as they stand, not mutated (long): integers around the float range, many fraction digits
LONG_WORDS = ["1" + "0" * 308, "-9" * 160, "1" + "0" * 400, "0." + "3" * 60, "16#" + "F" * 70 + "#"]


def tools(d):
    import pvl.grammar as G, pvl.decoder as D, pvl.encoder as E
    if d not in _G:
        g = {"PVL": G.PVLGrammar, "ODL": G.ODLGrammar, "PDS3": G.PDSGrammar, "ISIS": G.ISISGrammar, "OMNI": G.OmniGrammar}[d]()
        dec = {"PVL": D.PVLDecoder, "ODL": D.ODLDecoder, "PDS3": D.PDSLabelDecoder, "ISIS": D.OmniDecoder, "OMNI": D.OmniDecoder}[d](grammar=g)
        enc = {"PVL": E.PVLEncoder, "ODL": E.ODLEncoder, "PDS3": E.PDSLabelEncoder, "ISIS": E.ISISEncoder, "OMNI": None}[d]
        _G[d] = (g, dec, enc() if enc else None)
    return _G[d]


def tag(v):
    if v is None:
        return "null"
    if isinstance(v, bool):
        return "bool"
    if isinstance(v, int):
        return "int"
    if isinstance(v, float):
        return "real"
    if isinstance(v, str):
        return "str"
    if isinstance(v, datetime.datetime):
        return "datetime"
    if isinstance(v, datetime.date):
        return "date"
    if isinstance(v, datetime.time):
        return "time"
    return "!other"


def record(job):
    d, s = job
    from pvl.token import Token
    g, dec, enc = tools(d)
    t = Token(s, grammar=g, decoder=dec)
    ev = {"d": d, "s": [ord(c) for c in s]}

    def pred(f):
        try:
            return bool(f())
        except Exception:
            return False
    with warnings.catch_warnings():
        warnings.simplefilter("ignore")
        ev["q"] = pred(t.is_quoted_string)
        ev["nd"] = pred(t.is_non_decimal)
        ev["dec"] = pred(t.is_decimal)
        ev["dt"] = pred(t.is_datetime)
        ev["unq"] = pred(t.is_unquoted_string)
        ev["pn"] = pred(t.is_parameter_name)
        ev["sv"] = pred(t.is_simple_value)

        def decodes(f):
            try:
                f(t)
                return True
            except Exception:
                return False
        ev["dq"] = decodes(dec.decode_quoted_string)
        ev["dnd"] = decodes(dec.decode_non_decimal)
        ev["ddec"] = decodes(dec.decode_decimal)
        ev["ddt"] = decodes(dec.decode_datetime)
        try:
            v = dec.decode_simple_value(t)
            ev["decoded"] = tag(v)
            ev["dstr"] = [ord(c) for c in v] if isinstance(v, str) else []
        except ValueError:
            ev["decoded"], ev["dstr"] = "ValueError", []
        except Exception as e:
            ev["decoded"], ev["dstr"] = "!other", [ord(c) for c in type(e).__name__]
        # the same text as the lexer hands it to the parser, and as a parameter name in a real load
        ev["lexdiff"], ev["nameok"], ev["lexsplit"] = [], False, False
        plain = s and not any(c in s for c in " \t\n\r\v\f") and s[0] not in "'\""
        if plain:
            from pvl.lexer import lexer
            try:
                toks = list(lexer(s, g=g, d=dec))
            except Exception:
                toks = []
            if ev["sv"] and not (len(toks) == 1 and str(toks[0]) == s):
                ev["lexsplit"] = True       # a simple value must come out of the lexer as one token
            if len(toks) == 1 and str(toks[0]) == s:
                lt = toks[0]
                for name, f in (("q", lt.is_quoted_string), ("nd", lt.is_non_decimal), ("dec", lt.is_decimal), ("dt", lt.is_datetime),
                                ("unq", lt.is_unquoted_string), ("pn", lt.is_parameter_name), ("sv", lt.is_simple_value)):
                    if pred(f) != ev[name]:
                        ev["lexdiff"].append(name)
            if ev["nd"] or ev["dec"] or ev["dt"]:
                from .. import loaders
                obs = loaders.load({"PVL": "PVL", "ODL": "ODL", "PDS3": "PDS3", "ISIS": "ISIS", "OMNI": "OMNI"}[d], s + " = 1\nEND\n")
                ev["nameok"] = obs["kind"] == "module" and any(x["t"] == "item" and x["s"] == s for x in obs["tree"]["xs"])
        ev["encname"] = False
        if enc is not None and plain and (ev["nd"] or ev["dec"] or ev["dt"]):
            for e2 in (enc, type(enc)(grammar=g)):
                try:
                    e2.encode_assignment(s, 1)
                    ev["encname"] = True
                except Exception:
                    pass
        ev["enc"], ev["redec"] = "none", "n/a"
        if enc is not None:
            try:
                out = enc.encode_string(s)
                ev["enc"] = "unquoted" if out == s else "quoted"
                if ev["enc"] == "quoted":
                    try:
                        back = dec.decode_simple_value(Token(out, grammar=g, decoder=dec))
                        if back == s and isinstance(back, str):
                            ev["redec"] = "same"
                        elif isinstance(back, str) and " ".join(back.split()) == " ".join(s.split()) and d != "PVL":
                            ev["redec"] = "folded-same"
                        else:
                            ev["redec"] = "differs"
                    except Exception:
                        ev["redec"] = "differs"
            except (ValueError, TypeError):
                ev["enc"] = "refused"
            except Exception as e:
                ev["enc"] = "!exc"
    return ev


def mutations(word, alphabet):
    out = {word}
    for i in range(len(word)):
        out.add(word[:i] + word[i + 1:])
        out.add(word[:i] + word[i] + word[i:])
        if i + 1 < len(word):
            out.add(word[:i] + word[i + 1] + word[i] + word[i + 2:])
        for c in alphabet:
            out.add(word[:i] + c + word[i + 1:])
    return out


def run_classes(ctx, rep, maxlen, with_mutations=True):
    """returns failures [(property, sig, case, detail)]"""
    from ..common import import_pvl
    import_pvl()
    p = os.path.join(ctx.scratch, "class.cfg")
    with open(p, "w") as f:
        f.write("SPECIFICATION Spec\nCONSTANT MaxLen = %d\nCONSTANT Emit = TRUE\nINVARIANT ClassTotal\n"
                "INVARIANT NumbersAreNotNames\nINVARIANT UnquotedDenotesItself\nINVARIANT EmitCase\nCHECK_DEADLOCK FALSE\n" % maxlen)
    r = tlc.run("MC_Class", p, workers=16, scratch=ctx.scratch, timeout=7000, xss="64m")
    if r.violation:
        raise RuntimeError("reference classification violates its own theorems: " + r.violation)
    rep.tlc("MC_Class: all token texts <= %d over the 13-character value alphabet" % maxlen, r)
    rep.exhaustive["token texts <= %d over sigma_v" % maxlen] = True
    texts = [loaders.cps(c["text"]) for c in r.printed]
    if with_mutations:
        extra = set()
        for w in LEXICON:
            extra |= mutations(w, "16-+.:#eTZ_a'")
        # the domain of the property: non-empty token texts without white space unless quoted
        extra = {w for w in extra if w and (not any(ch in " \t\n\r\v\f" for ch in w) or (w[0] in "'\"" and w[-1] == w[0] and len(w) > 1))}
        texts += sorted(extra - set(texts))
        texts += LONG_WORDS
    jobs = [(d, s) for s in texts for d in loaders.CONFIGS]
    # the lexicon once more with the dialects in the opposite order (decoders of different dialects must not influence
    # each other: the class of a text is a function of the dialect and the text)
    njobs = len(jobs)
    if with_mutations:
        jobs += [(d, s) for s in LEXICON for d in reversed(loaders.CONFIGS)]
    evs = pool_map(record, jobs, chunksize=500)
    first = {(e["d"], tuple(e["s"])): e for e in evs[:njobs]}
    order_fails = []
    for e in evs[njobs:]:
        f = first.get((e["d"], tuple(e["s"])))
        if f is not None and f != e:
            diff = sorted(k for k in e if f.get(k) != e[k])
            order_fails.append(("C17", {"config": e["d"], "locus": "order-of-dialects", "features": loaders.text_features(loaders.cps(e["s"])),
                                        "observed": "classification-depends-on-earlier-calls"},
                                {"config": e["d"], "text": loaders.cps(e["s"])}, {"fields_that_differ": diff, "first": {k: f[k] for k in diff}, "second": {k: e[k] for k in diff}}))
    evs = evs[:njobs]
    batches = list(chunks(evs, 20000))
    from concurrent.futures import ThreadPoolExecutor

    def one(args):
        bi, b = args
        path = os.path.join(ctx.scratch, "cls%d.json" % bi)
        with open(path, "w") as f:
            json.dump(b, f)
        rr = tlc.run("Trace_Class", "Trace_Class.cfg", workers=4, scratch=ctx.scratch, env={"TRACE_FILE": path}, xss="64m", timeout=3000)
        os.unlink(path)
        return rr
    with ThreadPoolExecutor(4) as ex:
        results = list(ex.map(one, enumerate(batches)))
    fails = []
    for b, rr in zip(batches, results):
        rep.tlc("Trace_Class batch", rr)
        verdicts = {v["i"]: v for v in rr.printed if "i" in v}
        if len(verdicts) != len(b):
            raise RuntimeError("Trace_Class returned %d verdicts for %d events\n%s" % (len(verdicts), len(b), rr.raw[-1500:]))
        for i, ev in enumerate(b, 1):
            v = verdicts[i]
            s = loaders.cps(ev["s"])
            rep.case("class/" + ev["d"], (ev["d"], s), v["ref"] not in ("nav",))
            if not v["fails"]:
                rep.traces_validated += 1
            for clause in v["fails"]:
                prop = "C03" if clause == "ref-class" else "C17"
                fails.append((prop, {"config": ev["d"], "locus": v["ref"], "features": loaders.text_features(s),
                                     "observed": clause + (":" + ev["decoded"] if clause == "ref-class" else "")},
                              {"config": ev["d"], "text": s}, {"record": {k: ev[k] for k in ev if k not in ("s",)}, "reference_class": v["ref"]}))
    fails += order_fails
    rep.sample({"text": "2#101#", "note": "one record per (dialect, text): predicates, decoder outcome, encoder decision"}, limit=12)
    return fails
