"""C08 - missing values are tolerated by the default loader and located exactly."""
from . import tokenlevel
from .. import loaders
from ..common import pool_map


def _strict(job):
    config, text = job
    return loaders.load(config, text)


def run(ctx, rep):
    maxlen = 9 if ctx.thorough else 7
    rep.rule = ("token level: every token sequence <= %d explored by the tolerant reference grammar (spec/PvlGrammar.tla, "
                "OmniCfg), token i on line i and all on one line, loaded with the default and the ISIS configuration: "
                "statements, placeholders, their line numbers and module.errors must equal the reference; every text in "
                "which the reference repairs a missing value must be rejected by the strict PVL/ODL/PDS3 parsers. "
                "distinct = (config, token sequence, layout); non-trivial = the reference repairs at least one value" % maxlen)
    fails = tokenlevel.run_tokens(ctx, rep, maxlen, ["C08"], configs=["OMNI", "ISIS"])
    other = {}
    for prop, sig, case, detail in fails:
        if prop == "C08":
            rep.fail(sig, case, detail)
        else:
            other[prop] = other.get(prop, 0) + 1
    rep.coverage_extra["failures_attributed_to_other_properties"] = other
    # strict parsers must raise on every text with a repaired value
    from . import tokenlevel as tl
    cases = tl.emit_cases(ctx, rep, "tolerant", maxlen - 1)
    jobs = []
    for c in cases:
        if c["o"]["verdict"] == "accept" and c["o"]["errs"]:
            for cfg in ("PVL", "ODL", "PDS3"):
                jobs.append((cfg, tl.concretise(c["toks"], "\n")))
    res = pool_map(_strict, jobs, chunksize=200)
    n = 0
    for (cfg, text), obs in zip(jobs, res):
        rep.case("strict-must-raise/" + cfg, (cfg, text), True)
        n += 1
        if obs["kind"] == "module":
            rep.fail({"config": cfg, "locus": "missing-value", "observed": "strict-parser-accepts"},
                     {"config": cfg, "text": text}, {"observed": obs})
        else:
            rep.traces_validated += 1
    rep.coverage_extra["texts_with_missing_values_checked_against_strict_parsers"] = n
