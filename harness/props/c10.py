"""C10 - list view and mapping view of the ordered multi-dict agree after any history.

S->C : every history of depth D the reference (spec/MultiDict.tla) allows is replayed on
       the real container classes; after every step the result, the list and the complete
       observer record are compared with what TLC emitted.
C->S : long seeded random walks over a larger key/value alphabet are recorded from the real
       containers and judged by TLC (spec/Trace_MultiDict.tla).
"""
import json, os, warnings
from .. import tlc
from ..common import pool_map, chunks

warnings.simplefilter("ignore")
PROBE_ABSENT_K, PROBE_ABSENT_V = "z", "w"


def classes():
    import pvl.collections as c
    return {"OrderedMultiDict": c.OrderedMultiDict, "PVLModule": c.PVLModule,
            "PVLGroup": c.PVLGroup, "PVLObject": c.PVLObject}


_REAL = {}          # model value -> Python value for the current replay ("y" -> None in the null-valued variant)


def rv(v):
    return _REAL.get(v, v) if isinstance(v, str) else v


def sv(v):
    if v is None and "y" in _REAL:
        return "y"
    return v if isinstance(v, str) else "!" + repr(v)


def pr(p):
    try:
        k, v = p
        return [sv(k), sv(v)]
    except Exception:
        return ["!" + repr(p), "!"]


def prs(seq):
    return [pr(p) for p in seq]


def exc_name(e):
    return type(e).__name__


def apply_op(m, o):
    """Perform operation record o on the real container m; return the result record."""
    op, k, v, i, form = o["op"], o["k"], rv(o["v"]), o["i"], o["form"]
    ps = [(p[0], rv(p[1])) for p in o["ps"]]
    try:
        with warnings.catch_warnings():
            warnings.simplefilter("ignore")
            if op == "append":
                r = m.append(k, v)
            elif op == "extend":
                if form == "pairs":
                    r = m.extend(ps)
                elif form == "map":
                    r = m.extend(dict(ps))
                else:
                    r = m.extend(**dict(ps))
            elif op in ("insert", "insert_before", "insert_after"):
                if form == "kv":
                    arg = None
                elif form == "pair":
                    arg = ps[0]
                elif form == "pairs":
                    arg = list(ps)
                else:
                    arg = dict(ps)
                if op == "insert":
                    r = m.insert(i, ps[0][0], ps[0][1]) if form == "kv" else m.insert(i, arg)
                elif op == "insert_before":
                    r = m.insert_before(k, arg, i)
                else:
                    r = m.insert_after(k, arg, i)
            elif op == "setitem":
                m[k] = v
                r = None
            elif op == "delitem":
                del m[k]
                r = None
            elif op == "pop":
                r = m.pop()
            elif op == "popitem":
                r = m.popitem()
            elif op == "popkey":
                r = m.pop(k)
            elif op == "popall":
                r = m.popall(k)
            elif op == "popkey_d":
                r = m.pop(k, v)
            elif op == "popall_d":
                r = m.popall(k, v)
            elif op == "setdefault":
                r = m.setdefault(k, v)
            elif op == "update":
                if form == "pairs":
                    r = m.update(ps)
                elif form == "map":
                    r = m.update(dict(ps))
                else:
                    r = m.update(**dict(ps))
            elif op == "discard":
                r = m.discard(k)
            elif op == "clear":
                r = m.clear()
            else:
                raise AssertionError(op)
    except Exception as e:  # the result of the call is the exception class
        return {"t": "exc", "a": exc_name(e), "b": ""}
    if r is None and not (_REAL and op in ("popkey", "popkey_d", "popall", "popall_d", "setdefault")):      # (in the null-valued variant None is a value)
        return {"t": "none", "a": "", "b": ""}
    if op in ("pop", "popitem"):
        p = pr(r)
        return {"t": "pair", "a": p[0], "b": p[1]}
    return {"t": "val", "a": sv(r), "b": ""}


def _try(f, on_exc=None):
    try:
        return f()
    except Exception as e:
        return on_exc(e) if on_exc else "!" + exc_name(e)


def observe(m, probe_k, probe_v):
    """Project the real container through its public read API, in the shape of Obs()."""
    with warnings.catch_warnings():
        warnings.simplefilter("ignore")
        L = _try(lambda: len(m), lambda e: -1)
        lst = _try(lambda: prs(list(m)), lambda e: [["!" + exc_name(e), "!"]])
        n = L if isinstance(L, int) and L >= 0 else 0
        at = []
        for i in range(-n - 1, n + 1):
            at.append(_try(lambda: pr(m[i]), lambda e: ["!" + exc_name(e), "!"]))
        ob = {
            "len": L, "list": lst, "at": at,
            "tail": _try(lambda: prs(m[1:]), lambda e: [["!" + exc_name(e), "!"]]),
            "init": _try(lambda: prs(m[:-1]), lambda e: [["!" + exc_name(e), "!"]]),
            "step2": _try(lambda: prs(m[::2]), lambda e: [["!" + exc_name(e), "!"]]),
            "rev": _try(lambda: prs(m[::-1]), lambda e: [["!" + exc_name(e), "!"]]),
            "keys": _try(lambda: [sv(k) for k in m.keys()], lambda e: ["!" + exc_name(e)]),
            "values": _try(lambda: [sv(v) for v in m.values()], lambda e: ["!" + exc_name(e)]),
            "key": {}, "val": {}, "item": {},
        }
        # views must agree with themselves: len() and indexing of each view
        kv, vv, iv = m.keys(), m.values(), m.items()
        view_ok = _try(lambda: (len(kv) == len(vv) == len(iv) == L
                                and [sv(kv[j]) for j in range(n)] == ob["keys"]
                                and [sv(vv[j]) for j in range(n)] == ob["values"]
                                and prs([iv[j] for j in range(n)]) == lst
                                and prs(list(iv)) == lst), lambda e: False)
        if view_ok is not True:
            ob["keys"] = ["!views-disagree"] + ob["keys"]

        def ki(k, inst):
            try:
                return m.key_index(k, inst)
            except KeyError:
                return -1
            except IndexError:
                return -2
            except Exception:
                return -9

        def idx(view, x):
            try:
                r = view.index(x)
                c = x in view
                return r if c else -8       # index found but `in` says no
            except ValueError:
                try:
                    return -1 if not (x in view) else -7
                except Exception:
                    return -9
            except Exception:
                return -9
        for k in probe_k:
            kin = _try(lambda: k in m, lambda e: False)
            ob["key"][k] = {
                "in": kin if isinstance(kin, bool) else False,
                "get": _try(lambda: sv(m[k]), lambda e: "!" + exc_name(e)),
                "getd": _try(lambda: sv(m.get(k, "!default")), lambda e: "!" + exc_name(e)),
                "all": _try(lambda: [sv(x) for x in m.getall(k)], lambda e: ["!" + exc_name(e)]),
                "kidx": idx(m.keys(), k),
                "ki": [ki(k, 0), ki(k, 1), ki(k, 2), ki(k, -1)],
            }
            # m.get(k) without default returns None for an absent key
            g0 = _try(lambda: m.get(k), lambda e: "!" + exc_name(e))
            if not _REAL and (g0 is None) != (ob["key"][k]["getd"] == "!default"):
                ob["key"][k]["getd"] = "!get-inconsistent"
        for v in probe_v:
            ob["val"][v] = idx(m.values(), rv(v))
        for k in probe_k:
            ob["item"][k] = {v: idx(m.items(), (k, rv(v))) for v in probe_v}
        return ob


def precondition_class(o, pre):
    """Spec-level class of the step (from the operation and the reference pre-state only)."""
    op = o["op"]
    keys = [p[0] for p in pre]
    if op in ("insert",):
        c = "neg-index" if o["i"] < 0 else "index"
        return "%s/%s/%s" % (op, c, "multi" if len(o["ps"]) > 1 else "single")
    if op in ("insert_before", "insert_after"):
        c = "absent" if o["k"] not in keys else "present"
        return "%s/%s/%s" % (op, c, "multi" if len(o["ps"]) > 1 else "single")
    if op in ("pop", "popitem", "clear"):
        return "%s/%s" % (op, "empty" if not pre else "nonempty")
    if op in ("extend", "update"):
        return "%s/%s" % (op, o["form"])
    n = keys.count(o["k"])
    return "%s/%s" % (op, "absent" if n == 0 else ("present" if n == 1 else "duplicated"))


# ---------------------------------------------------------------- S -> C
_G = {}


def rebuild(m, how):
    """The same list in a new container (constructor from a container, .copy(), copy.copy, extend of an empty one); the
    old container then goes its own way, which must not show in the new one."""
    import copy
    cls = type(m)
    if how % 4 == 0:
        n = cls(m)
    elif how % 4 == 1:
        n = m.copy()
    elif how % 4 == 2:
        n = copy.copy(m)
    else:
        n = cls()
        n.extend(m)
    for k in list(dict.fromkeys(k for k, _ in list(m)))[:2]:
        m.append(k, "!old")
    if len(m):
        m.pop()
    return n


def _replay_hist(job):
    cname, hist = job[0], job[1]
    rebuilt = len(job) > 2 and job[2] is True
    _REAL.clear()
    if len(job) > 2 and job[2] == "null":
        _REAL["y"] = None
    cls = _G["classes"][cname]
    table = _G["table"]
    m = cls()
    pre = []
    for stepno, st in enumerate(hist):
        o = st["o"]
        if rebuilt and stepno:
            m = rebuild(m, stepno)
        ret = apply_op(m, o)
        clause = None
        if ret != st["ret"]:
            clause = ("ret", ret, st["ret"])
        else:
            got = observe(m, _G["probe_k"], _G["probe_v"])
            exp = table.get(json.dumps(st["post"]))
            if exp is None:
                return ("machinery", "no observer table entry for %r" % (st["post"],))
            if got["list"] != st["post"]:
                clause = ("post", got["list"], st["post"])
            elif got != exp:
                diff = [k for k in exp if got.get(k) != exp[k]]
                clause = ("obs", {k: got.get(k) for k in diff}, {k: exp[k] for k in diff})
            else:
                same = cls((p[0], rv(p[1])) for p in st["post"])
                variants = [st["post"] + [["a", "x"]], st["post"][:-1], st["post"][::-1],
                            [[p[0], "q"] for p in st["post"]]]
                eqs = [(m == same) is True and (m != same) is False]
                for vl in variants:
                    other = cls((p[0], rv(p[1])) for p in vl)
                    eqs.append((m == other) == (vl == st["post"]))
                if not all(eqs):
                    clause = ("eq", eqs, None)
        if clause:
            return ("fail", {"config": cname, "locus": precondition_class(o, pre) + ("/container-rebuilt-before" if rebuilt else "/value-is-None" if _REAL else ""),
                             "observed": clause[0]},
                    {"cls": cname, "history": [s["o"] for s in hist[:stepno + 1]], "step": stepno, "rebuilt_before_each_step": rebuilt},
                    {"clause": clause[0], "got": clause[1], "expected": clause[2]})
        pre = st["post"]
    return ("ok",)


# ---------------------------------------------------------------- C -> S
def random_walk(cls, rng, nsteps, keys, vals):
    m = cls()
    evs = []
    probe_k = keys + [PROBE_ABSENT_K]
    probe_v = vals + [PROBE_ABSENT_V]
    for _ in range(nsteps):
        L = len(m)
        op = rng.choice(["append", "append", "setitem", "setitem", "delitem", "pop", "popitem",
                         "popkey", "popall", "popkey_d", "popall_d", "setdefault", "discard",
                         "insert", "insert", "insert", "insert_before", "insert_after", "extend",
                         "update", "clear" if rng.random() < 0.15 else "append"])
        o = {"op": op, "k": "", "v": "", "i": 0, "ps": [], "form": ""}
        if op in ("append", "setitem", "setdefault", "popkey_d", "popall_d"):
            o["k"], o["v"] = rng.choice(keys), rng.choice(vals)
        elif op in ("delitem", "popkey", "popall", "discard"):
            o["k"] = rng.choice(keys + [PROBE_ABSENT_K])
        elif op == "insert":
            o["i"] = rng.randint(-L - 2, L + 2)
            o["form"] = rng.choice(["kv", "pair", "pairs", "pairs", "map"])
            npairs = 1 if o["form"] in ("kv", "pair") else rng.randint(1, 3)
            o["ps"] = [[rng.choice(keys), rng.choice(vals)] for _ in range(npairs)]
            if o["form"] == "map":
                o["ps"] = [list(p) for p in dict(map(tuple, o["ps"])).items()]
        elif op in ("insert_before", "insert_after"):
            o["k"] = rng.choice(keys)
            o["i"] = rng.choice([0, 0, 0, 1, -1, 2])
            o["form"] = rng.choice(["pair", "pairs"])
            npairs = 1 if o["form"] == "pair" else rng.randint(1, 3)
            o["ps"] = [[rng.choice(keys), rng.choice(vals)] for _ in range(npairs)]
        elif op in ("extend", "update"):
            o["form"] = rng.choice(["pairs", "map", "kw"])
            o["ps"] = [[rng.choice(keys), rng.choice(vals)] for _ in range(rng.randint(0, 3))]
            if o["form"] != "pairs":
                o["ps"] = [list(p) for p in dict(map(tuple, o["ps"])).items()]
        if rng.random() < 0.12:
            m = rebuild(m, rng.randrange(4))       # not an event: the list is the same, only the object is new
        ret = apply_op(m, o)
        ob = observe(m, probe_k, probe_v)
        post = ob["list"]
        eq = []
        for vl in (post, post + [[keys[0], vals[0]]], post[:-1], post[::-1]):
            try:
                r = (m == cls(tuple(p) for p in vl))
                r = bool(r) and not (m != cls(tuple(p) for p in vl))
            except Exception:
                r = False if vl == post else True
            eq.append({"l": vl, "r": r})
        evs.append({"o": o, "ret": ret, "post": post, "obs": ob, "eq": eq})
    return evs


def _walk_job(job):
    cname, seed, nsteps = job
    import random
    rng = random.Random(seed)
    return {"cls": cname, "seed": seed,
            "ev": random_walk(_G["classes"][cname], rng, nsteps, ["a", "b", "c", "d"], ["x", "y", "z"])}


def run(ctx, rep):
    from ..common import import_pvl
    import_pvl()
    _G["classes"] = classes()
    _G["probe_k"] = ["a", "b", "z"]
    _G["probe_v"] = ["x", "y", "w"]
    depth = 4 if ctx.thorough else 3
    rep.rule = ("S->C: every operation history of depth %d over the %d-instance operation set of "
                "spec/MC_MultiDict.tla x 4 container classes, full observer record compared after "
                "every step; C->S: seeded random walks over 4 keys x 3 values judged by TLC. "
                "distinct = distinct (class, history) or (class, walk seed); non-trivial = history "
                "reaches a list with a duplicated key or raises" % (depth, 61))
    # --- model checking of the reference itself + observer table
    r = tlc.run("MC_MultiDict", "MC_MultiDict_obs.cfg", workers=16, coverage=True, scratch=ctx.scratch)
    rep.tlc("MC_MultiDict_obs (observer theorems, documented effects; lists <= 5)", r)
    if r.violation:
        raise RuntimeError("reference model violates its own theorems: " + r.violation)
    r = tlc.run("MC_MultiDict", "MC_MultiDict_table.cfg", workers=1, scratch=ctx.scratch)
    rep.tlc("MC_MultiDict_table (observer record of every list <= 6)", r)
    _G["table"] = {json.dumps(x["list"]): x["obs"] for x in r.printed}
    # --- histories
    hists = []
    plans = [(3, "full")] + ([(4, "core")] if ctx.thorough else [])
    for dd, subset in plans:
        cfg = os.path.join(ctx.scratch, "hist.cfg")
        with open(cfg, "w") as f:
            f.write('SPECIFICATION Spec\nCONSTANT D = %d\nCONSTANT Mode = "hist"\nCONSTANT OpSubset = "%s"\nCONSTANT MaxLen = 99\n'
                    'INVARIANT EmitHist\nCHECK_DEADLOCK FALSE\n' % (dd, subset))
        r = tlc.run("MC_MultiDict", cfg, workers=1, scratch=ctx.scratch, timeout=3000)
        rep.tlc("MC_MultiDict_hist (all histories of depth %d, %s operation set)" % (dd, subset), r)
        if len(r.printed) < 1000:
            raise RuntimeError("history emission failed: %d" % len(r.printed))
        rep.exhaustive["histories of depth %d (%s op set) x 4 classes" % (dd, subset)] = True
        hists += r.printed
    names = list(_G["classes"])
    jobs = [(c, h, False) for h in hists for c in names]
    # the same histories on a container that is replaced, before every step, by a copy of itself (four mechanisms in turn)
    jobs += [(names[i % 4], h, True) for i, h in enumerate(hists if ctx.thorough else hists[::2])]
    # ... and with the value "y" realised as None (the PVL Null is an ordinary value: present is not the same as truthy)
    jobs += [(names[i % 4], h, "null") for i, h in enumerate(hists if ctx.thorough else hists[1::2]) if any(s["o"]["v"] == "y" or ["y"] in [p[1:] for p in s["o"]["ps"]] for s in h)]
    res = pool_map(_replay_hist, jobs)
    for (cname, h, rb), out in zip(jobs, res):
        nontriv = any(s["ret"]["t"] == "exc" for s in h) or any(
            len({p[0] for p in s["post"]}) < len(s["post"]) for s in h)
        rep.case("replay-null" if rb == "null" else "replay-rebuilt" if rb else "replay", (cname, json.dumps([s["o"] for s in h])), nontriv)
        if out[0] == "machinery":
            raise RuntimeError(out[1])
        if out[0] == "fail":
            rep.fail(out[1], out[2], out[3])
        else:
            rep.traces_validated += 1
    rep.sample({"kind": "history replayed on PVLModule", "ops": [s["o"] for s in hists[len(hists) // 3]],
                "expected_final_list": hists[len(hists) // 3][-1]["post"]})
    # --- random walks judged by TLC
    nwalks, nsteps = (4000, 60) if ctx.thorough else (600, 40)
    jobs = [(names[i % 4], ctx.seed * 1000003 + i, nsteps) for i in range(nwalks)]
    walks = pool_map(_walk_job, jobs, chunksize=8)
    validate_walks(ctx, rep, walks)
    rep.sample({"kind": "recorded walk (first 3 events)", "cls": walks[0]["cls"],
                "events": [{k: e[k] for k in ("o", "ret", "post")} for e in walks[0]["ev"][:3]]})


def validate_walks(ctx, rep, walks, batch=250):
    nb = 0
    batches = list(chunks(walks, batch))

    def one(args):
        bi, b = args
        path = os.path.join(ctx.scratch, "walks%d.json" % bi)
        with open(path, "w") as f:
            json.dump([{"ev": w["ev"]} for w in b], f)
        r = tlc.run("Trace_MultiDict", "Trace_MultiDict.cfg", workers=1, scratch=ctx.scratch,
                    env={"TRACE_FILE": path})
        os.unlink(path)
        return r
    from concurrent.futures import ThreadPoolExecutor
    with ThreadPoolExecutor(8) as ex:
        results = list(ex.map(one, enumerate(batches)))
    for b, r in zip(batches, results):
        rep.tlc("Trace_MultiDict batch", r)
        verdicts = {v["tid"]: v for v in r.printed if "tid" in v}
        if len(verdicts) != len(b):
            raise RuntimeError("trace validation returned %d verdicts for %d traces\n%s" %
                               (len(verdicts), len(b), r.raw[-2000:]))
        for i, w in enumerate(b, 1):
            v = verdicts[i]
            rep.case("walk", (w["cls"], w["seed"]), True)
            if v["n"] != len(w["ev"]):
                raise RuntimeError("trace %d consumed %d of %d events" % (i, v["n"], len(w["ev"])))
            if not v["fails"]:
                rep.traces_validated += 1
            seen = set()
            # only the first failing event of a walk is judged: once the real object has
            # diverged, later mismatches may be consequences of the first one
            for fl in v["fails"][:1]:
                step = fl["l"] - 1
                e = w["ev"][step]
                pre = w["ev"][step - 1]["post"] if step else []
                sig = {"config": w["cls"], "locus": precondition_class(e["o"], pre),
                       "observed": fl["clause"]}
                key = json.dumps(sig)
                if key in seen:
                    continue
                seen.add(key)
                rep.fail(sig, {"cls": w["cls"], "seed": w["seed"], "step": step,
                               "history": [x["o"] for x in w["ev"][:step + 1]]},
                         {"clause": fl["clause"], "logged_ret": e["ret"], "logged_post": e["post"]})
