"""C18 - type-customisation hooks apply uniformly at every depth."""
import decimal, fractions, os
from .. import loaders
from ..common import pool_map
from ..projection import project
from . import docs


class RecStr(str):
    """A real-number class that records exactly the text it was constructed from.
    Like float and Decimal it refuses text that is not a number."""

    def __new__(cls, text):
        float(text)                      # ValueError for non-numeric text
        return str.__new__(cls, text)


class RecQty:
    def __init__(self, value, units):
        self.value, self.units = value, units


class PickyQty(RecQty):
    """A quantity class that refuses every units text (as a units library does for units it does not know).  The loader
    then cannot deliver the value as an instance of the substitute, so it has to fail; quietly returning the bare number
    would be a result in which a value-with-units is not an instance of the substitute."""

    def __init__(self, value, units):
        raise ValueError("unknown units: %r" % (units,))


def hook_sets():
    import pvl.collections as c

    class MyModule(c.PVLModule):
        pass

    class MyGroup(c.PVLGroup):
        pass

    class MyObject(c.PVLObject):
        pass
    return {
        "decimal": dict(real_cls=decimal.Decimal, quantity_cls=None, classes=None),
        "recording": dict(real_cls=RecStr, quantity_cls=RecQty, classes=(MyModule, MyGroup, MyObject)),
        "fraction": dict(real_cls=fractions.Fraction, quantity_cls=RecQty, classes=None),
        "picky": dict(real_cls=fractions.Fraction, quantity_cls=PickyQty, classes=None),
    }


_H = {}


def make_parser(config, hook):
    import pvl.parser as P, pvl.grammar as G, pvl.decoder as D
    h = _H[hook]
    dkw = {}
    if h["quantity_cls"] is not None:
        dkw["quantity_cls"] = h["quantity_cls"]
    pkw = {}
    if h["classes"]:
        pkw = dict(module_class=h["classes"][0], group_class=h["classes"][1], object_class=h["classes"][2])
    if config == "PVL":
        g = G.PVLGrammar()
        return P.PVLParser(grammar=g, decoder=D.PVLDecoder(grammar=g, real_cls=h["real_cls"], **dkw), **pkw)
    if config == "ODL":
        g = G.ODLGrammar()
        return P.ODLParser(grammar=g, decoder=D.ODLDecoder(grammar=g, real_cls=h["real_cls"], **dkw), **pkw)
    if config == "ISIS":
        g = G.ISISGrammar()
        return P.OmniParser(grammar=g, decoder=D.OmniDecoder(grammar=g, real_cls=h["real_cls"], **dkw), **pkw)
    if config == "OMNI":
        g = G.OmniGrammar()
        return P.OmniParser(grammar=g, decoder=D.OmniDecoder(grammar=g, real_cls=h["real_cls"], **dkw), **pkw)
    raise AssertionError(config)


def _loads_bytes(text, hook):
    import pvl, warnings, pvl.grammar as G, pvl.decoder as D
    h = _H[hook]
    g = G.OmniGrammar()
    dkw = {"quantity_cls": h["quantity_cls"]} if h["quantity_cls"] is not None else {}
    pkw = dict(module_class=h["classes"][0], group_class=h["classes"][1], object_class=h["classes"][2]) if h["classes"] else {}
    try:
        with loaders.watchdog(10), warnings.catch_warnings():
            warnings.simplefilter("ignore")
            m = pvl.loads(text.encode("utf-8"), grammar=g, decoder=D.OmniDecoder(grammar=g, real_cls=h["real_cls"], **dkw), **pkw)
        return {"kind": "module", "tree": project(m), "errors": list(getattr(m, "errors", []))}
    except loaders.Hang:
        return {"kind": "hang"}
    except Exception as e:
        return {"kind": "raise", "type": type(e).__name__, "documented": type(e).__name__ in ("LexerError", "ParseError"), "msg": str(e)[:200]}


def canon_expected(n):
    t, s = n["t"], loaders.cps(n["s"])
    if t == "int":
        radix, _, digits = s.partition(":")
        s = str(int(digits, int(radix)))
    elif t == "real":
        s = repr(float(s))
    elif t == "decimal":
        s = str(decimal.Decimal(s))
    elif t == "fraction":
        s = str(fractions.Fraction(s))
    return {"t": t, "s": s, "xs": [canon_expected(x) for x in n["xs"]]}


def _one(job):
    config, hook, text, expected = job
    if config == "OMNI/bytes":      # through pvl.loads(bytes, ...): the keyword arguments must reach the parser that is built
        obs = _loads_bytes(text, hook)
        config_ref = "OMNI"
    else:
        obs = loaders.load(config, text, parser=make_parser(config, hook))
        config_ref = config
    if hook == "picky" and any("qty" in f for f in loaders.features(expected)):
        if obs["kind"] == "raise":
            return None
        return ({"config": config + "/" + hook, "locus": "quantity-class-refuses", "features": loaders.features(expected),
                 "observed": "hang" if obs["kind"] == "hang" else "module-returned-without-the-quantity"},
                {"config": config, "hooks": hook, "text": text}, {"observed": obs})
    ref = {"verdict": "accept", "tree": expected, "errs": [], "locus": "accept"}
    j = loaders.judge(ref, obs, loaders.GRAMMAR_CFG[config_ref] == "tolerant")
    if j is None:
        return None
    return ({"config": config + "/" + hook, "locus": "accept", "features": loaders.features(expected), "observed": j[1]},
            {"config": config, "hooks": hook, "text": text}, {"expected_tree": expected, "observed": obs})


def run(ctx, rep):
    from ..common import import_pvl
    import_pvl()
    _H.update(hook_sets())
    n = 3 if ctx.thorough else 2
    rep.rule = ("labels generated by TLC (spec/MC_Doc.tla, profile 'hooks': reals in several spellings at top level, in sequences, nested "
                "sequences, sets, as quantity magnitude, inside nested blocks; <= %d statements) with the tree each hook combination must "
                "produce (Retag in the spec; TLC checks that retagging changes nothing else), loaded with PVL/ODL/ISIS/default parsers x 4 hook "
                "combinations (a quantity class that refuses the units: the load must fail rather than drop them; Decimal; a str subclass that records the exact text + a recording quantity class + subclassed containers; "
                "Fraction) and compared. distinct = (config, hooks, text); non-trivial = label contains a real or a quantity" % n)
    for config in ("PVL", "ODL", "ISIS", "OMNI"):
        cases = docs.emit(ctx, rep, config, "hooks", n)
        jobs = []
        for c in cases:
            if c["lay"]["k"] != "style" or c["lay"]["sep"] != 2:
                continue
            text = loaders.cps(c["text"])
            for hook, tree in c["rt"].items():
                jobs.append((config, hook, text, canon_expected(tree)))
            jobs.append((config, "picky", text, canon_expected(c["rt"]["fraction"])))
            if config == "OMNI":
                jobs.append(("OMNI/bytes", "recording", text, canon_expected(c["rt"]["recording"])))
        res = pool_map(_one, jobs, chunksize=200)
        for j, out in zip(jobs, res):
            f = loaders.features(j[3])
            rep.case("hooks/" + config, (j[0], j[1], j[2]), any("decimal" in x or "RecStr" in x or "fraction" in x or "qty" in x for x in f))
            if out is None:
                rep.traces_validated += 1
            else:
                rep.fail(*out)
        rep.sample({"config": config, "hooks": jobs[len(jobs) // 2][1], "text": jobs[len(jobs) // 2][2]}, limit=8)
