"""C09 - file, stream and string entry points agree; nothing after END matters."""
import hashlib, io, json, os, pathlib, shutil, signal, tempfile, urllib.request, warnings
from .. import tlc, loaders
from ..common import pool_map, chunks
from ..projection import project
from . import docs

SEPS = [b" ", b"\n", b"\r\n", b";", b";\n", b"\x00", b"\n\n", b"\x01", b"\x7f\xff"]


def trailers(rng, thorough):
    t = {
        "empty": b"",
        "random-binary": bytes(rng.randrange(256) for _ in range(96)),
        "bytes-0-255": bytes(range(256)),
        "valid-utf8-multibyte": ("é€\U0001F600 = (" * 5).encode("utf-8"),
        "truncated-multibyte": b"abc\xe2\x82",
        "ten-NULs": b"\x00" * 10,
        "64KiB-one-byte": b"A" * 65536,
        "looks-like-pvl": b"x = 1\nGROUP = g\n( { \" unterminated",
        "high-bytes-first": b"\xff\xfe\x00\x01data",
    }
    t["long-unbroken-decodable-run"] = b"Z" * ((1 << 20) if thorough else (1 << 18))
    return t


class CountingTokens:
    """Forwards to the real token generator and counts fresh tokens requested after END."""

    def __init__(self, gen, counter):
        self.gen, self.counter, self.ended, self.pending = gen, counter, False, False

    def __iter__(self):
        return self

    def __next__(self):
        t = next(self.gen)
        if self.pending:
            self.pending = False
            return t
        if self.ended:
            self.counter[0] += 1
        try:
            if t.is_end_statement():
                self.ended = True
        except Exception:
            pass
        return t

    def send(self, t):
        self.pending = True
        return self.gen.send(t)

    def throw(self, *a):
        return self.gen.throw(*a)


def outcome(fn):
    try:
        with loaders.watchdog(20), warnings.catch_warnings():
            warnings.simplefilter("ignore")
            m = fn()
        return {"kind": "module", "tree": project(m), "errors": list(getattr(m, "errors", []))}
    except loaders.Hang:
        return {"kind": "hang", "tree": EMPTY, "errors": []}
    except Exception as e:
        return {"kind": "raise", "tree": EMPTY, "errors": [], "type": type(e).__name__}


EMPTY = {"t": "none", "s": [], "xs": []}


def tla_tree(n):
    """projection -> the reference's tree form (text as code points; ints as 'radix:digits', reals as written)"""
    t, s = n["t"], n["s"]
    if t == "int":
        s = "10:" + s
    return {"t": t, "s": [ord(c) for c in s], "xs": [tla_tree(x) for x in n["xs"]]}


def _case(job):
    import pvl
    from pvl.parser import OmniParser
    from pvl.lexer import lexer as real_lexer
    idx, data, whole_decodable, tmpdir = job
    # every third file has a name that needs escaping in a file: URL
    path = os.path.join(tmpdir, ("f%d a#b%%41 \u00e9.lbl" if idx % 3 == 0 else "f%d.lbl") % idx)
    with open(path, "wb") as f:
        f.write(data)
    header = b"SFDU HEADER 0123456789\r\n"          # the label behind a header: streams are handed over at a non-zero offset
    path2 = os.path.join(tmpdir, "h%d.img" % idx)
    with open(path2, "wb") as f:
        f.write(header + data)
    results, after = {}, {}

    def run(name, call):
        counter = [0]

        def lexer_fn(s, g=None, d=None):
            return CountingTokens(real_lexer(s, g=g, d=d), counter)
        results[name] = outcome(lambda: call(OmniParser(lexer_fn=lexer_fn)))
        after[name] = counter[0]
        # and once without any extra argument (the plain call of the property)
        plain = outcome(lambda: call(None))
        if plain["kind"] != results[name]["kind"] or plain["tree"] != results[name]["tree"]:
            results[name] = plain if plain["kind"] != "module" else dict(plain, kind="module-differs-with-explicit-parser")
    run("load_str_path", lambda p: pvl.load(path, parser=p))
    run("load_pathlike", lambda p: pvl.load(pathlib.Path(path), parser=p))
    run("loadu_file_url", lambda p: pvl.loadu(pathlib.Path(path).as_uri(), parser=p))

    def text_stream(p):
        with open(path, "r", encoding="utf-8") as f:
            return pvl.load(f, parser=p)

    def binary_stream(p):
        with open(path, "rb") as f:
            return pvl.load(f, parser=p)
    run("load_text_stream", text_stream)
    run("load_binary_stream", binary_stream)

    def binary_stream_at_offset(p):
        with open(path2, "rb") as f:
            f.seek(len(header))
            return pvl.load(f, parser=p)

    def text_stream_at_offset(p):
        with open(path2, "r", encoding="utf-8", newline="") as f:
            f.read(len(header))
            return pvl.load(f, parser=p)
    run("load_binary_stream@offset", binary_stream_at_offset)
    if whole_decodable:
        run("load_text_stream@offset", text_stream_at_offset)
    # the strict grammars too (END glued to a byte their character set does not have must still end the label)
    from .. import loaders as L
    run("PVL:load_str_path", lambda p: pvl.load(path, parser=L.make_parser("PVL", **({"lexer_fn": p.lexer} if p else {}))))
    run("ISIS:load_binary_stream", lambda p: pvl.load(open(path, "rb"), parser=L.make_parser("ISIS", **({"lexer_fn": p.lexer} if p else {}))))
    if whole_decodable:
        run("loads_str", lambda p: pvl.loads(data.decode("utf-8"), parser=p))
        run("loads_bytes", lambda p: pvl.loads(data, parser=p))
    os.unlink(path)
    os.unlink(path2)
    return results, after


def _dump_case(job):
    import pvl
    idx, text, tmpdir = job
    try:
        m = pvl.loads(text)
    except Exception:
        return []               # not loadable: the entry-point stage judges that, nothing to dump here
    out = []
    for enc_name in ("PVL", "ODL", "PDS3", "ISIS"):
        import pvl.encoder as E
        enc = {"PVL": E.PVLEncoder, "ODL": E.ODLEncoder, "PDS3": E.PDSLabelEncoder, "ISIS": E.ISISEncoder}[enc_name]
        try:
            s = pvl.dumps(m, encoder=enc())
        except Exception:
            continue
        dig = hashlib.blake2b(s.encode("utf-8", "surrogatepass"), digest_size=8).hexdigest()
        p = os.path.join(tmpdir, "d%d_%s.lbl" % (idx, enc_name))

        def target(name, call, read, length):
            try:
                n = call()
                w = read()
                wd = hashlib.blake2b(w, digest_size=8).hexdigest()
            except Exception as e:                       # the target failed although dumps() succeeded
                n, wd = -1, "!" + type(e).__name__
            out.append({"ev": "dump", "target": name + "/" + enc_name, "text_digest": dig, "written_digest": wd,
                        "returned": n if isinstance(n, int) else -2, "length": length})
        buf, bbuf = io.StringIO(), io.BytesIO()
        target("path", lambda: pvl.dump(m, p, encoder=enc()), lambda: open(p, "rb").read(), len(s))
        target("text-stream", lambda: pvl.dump(m, buf, encoder=enc()), lambda: buf.getvalue().encode("utf-8", "surrogatepass"), len(s))
        target("binary-stream", lambda: pvl.dump(m, bbuf, encoder=enc()), lambda: bbuf.getvalue(), len(s.encode()))

        def to_open_file():
            with open(p, "w", newline="") as f:
                return pvl.dump(m, f, encoder=enc())
        target("open-file", to_open_file, lambda: open(p, "rb").read(), len(s))
        if os.path.exists(p):
            os.unlink(p)
    return out


def run(ctx, rep):
    from ..common import import_pvl
    import_pvl()
    rep.rule = ("labels generated by TLC (spec/MC_Doc.tla, OMNI) and hand-picked non-ASCII labels x 7 separators after END x 10 kinds "
                "of trailing bytes (random binary, all byte values, valid / truncated UTF-8, NULs, 64 KiB and 256 KiB-1 MiB unbroken runs) "
                "handed to load()/loadu()/loads() in 7 ways; every result judged by TLC (spec/Trace_Entry.tla over spec/PvlEntry.tla: "
                "decodable prefix then reference load, no token requested after END); dump to path / text stream / binary stream / open "
                "file must receive exactly dumps() and report its length. distinct = (label, separator, trailer); non-trivial = non-empty trailer")
    labels = [loaders.cps(c["text"]) for c in docs.emit(ctx, rep, "OMNI", "spell", 2)
              if c["lay"]["k"] == "style" and c["lay"]["sep"] == 2 and loaders.cps(c["text"]).rstrip().upper().endswith("END")
              and "set>seq" not in loaders.features(loaders.from_tla(c["tree"]))      # (finding F-C03-set-of-sequence)
              and "\r" not in loaders.cps(c["text"])]   # text-mode file reads translate a lone CR (Python's universal newlines): not pvl's doing
    step = max(1, len(labels) // (400 if ctx.thorough else 40))
    labels = labels[::step]
    labels += ["a = \"café °\"\nb = 2\nEND", "kéy = 1\nEND", "x = (1, 2)\nEND",
               "a = \"first line\nEND\nlast line\"\nb = 2\nEND", "/* a comment\nEND\nstill the comment */\na = 1\nEND",
               "a = 'x'\n  END  \nb = 'never read'\nEND",
               "a = x-\r\n  y\r\nb = 2\r\nEND", "a = 1\r\nb = 'p q'\r\nEND",           # CR-LF line ends, one after a dash continuation
               "a =\nEND", "a = 1\nb =\nEND", "a =\nb = 2\nc =\nEND"]                   # value-less assignments right before END
    trs = trailers(ctx.rng, ctx.thorough)
    tmpdir = tempfile.mkdtemp(prefix="pvlverif-c09-")
    try:
        jobs, meta = [], []
        for li, lab in enumerate(labels):
            for si, sep in enumerate(SEPS):
                for tn, tr in trs.items():
                    big = len(tr) > 1000
                    if big and (li % 7 or si % 3):
                        continue
                    if not big and (li + si) % 3 and tn not in ("empty", "random-binary"):
                        continue
                    data = lab.encode("utf-8") + sep + tr
                    try:
                        data.decode("utf-8")
                        whole = True
                    except UnicodeDecodeError:
                        whole = False
                    jobs.append((len(jobs), data, whole, tmpdir))
                    meta.append((lab, sep, tn))
        res = pool_map(_case, jobs, chunksize=4)
        events = []
        for (idx, data, whole, _), (results, after) in zip(jobs, res):
            lab, sep, tn = meta[idx]
            cut = len(lab.encode("utf-8")) + len(sep) + 160
            events.append({"ev": "read", "bytes": list(data[:cut]), "results": results, "after": after, "whole": whole and len(data) <= cut})
        dump_jobs = [(i, lab, tmpdir) for i, lab in enumerate(labels[:: (2 if ctx.thorough else 4)])]
        for lst in pool_map(_dump_case, dump_jobs, chunksize=2):
            events += lst
            meta += [("dump", b"", "dump")] * len(lst)
    finally:
        shutil.rmtree(tmpdir, ignore_errors=True)
    batches = list(chunks(list(zip(events, meta)), 600))
    from concurrent.futures import ThreadPoolExecutor

    def one(args):
        bi, b = args
        path = os.path.join(ctx.scratch, "entry%d.json" % bi)
        with open(path, "w") as f:
            json.dump([({"ev": "read", "bytes": e["bytes"]} if e["ev"] == "read" else e) for e, _ in b], f)
        rr = tlc.run("Trace_Entry", "Trace_Entry.cfg", workers=4, scratch=ctx.scratch, env={"TRACE_FILE": path}, xss="256m", timeout=3000)
        os.unlink(path)
        return rr
    with ThreadPoolExecutor(4) as ex:
        results = list(ex.map(one, enumerate(batches)))
    for b, rr in zip(batches, results):
        rep.tlc("Trace_Entry batch", rr)
        verdicts = {v["i"]: v for v in rr.printed if "i" in v}
        if len(verdicts) != len(b):
            raise RuntimeError("Trace_Entry returned %d verdicts for %d events\n%s" % (len(verdicts), len(b), rr.raw[-2000:]))
        for i, (ev, (lab, sep, tn)) in enumerate(b, 1):
            v = verdicts[i]
            rep.case("dump" if ev["ev"] == "dump" else "read", (lab, sep, tn, ev.get("target", "")), tn != "empty")
            fails = []
            if ev["ev"] == "dump":
                fails = list(v["fails"])
            else:
                for en, r in ev["results"].items():
                    ref = loaders.ref_outcome(v["strict"][en.split(":")[0]]) if ":" in en else loaders.ref_outcome(v["o"])
                    if ev["after"].get(en, 0) != 0:
                        fails.append(en + ":tokens-requested-after-END")
                    if ref["verdict"] == "accept":
                        ok = (r["kind"] == "module" and loaders.canon(r["tree"]) == loaders.canon(ref["tree"])
                              and r["errors"] == [int(x) for x in ref["errs"]])
                        if not ok:
                            fails.append(en + ":not-the-module-of-the-label(" + r["kind"] + ")")
                    elif ref["verdict"] == "reject" and r["kind"] != "raise":
                        fails.append(en + ":ill-formed-label-accepted")
            if not fails:
                rep.traces_validated += 1
            for clause in fails:
                entry, _, what = clause.partition(":")
                ascii_label = all(ord(c) < 128 for c in lab) if isinstance(lab, str) else True
                rep.fail({"config": entry if what else ev.get("target", ""), "locus": ("trailer:" + tn) + ("" if ascii_label else "/non-ascii-label"),
                          "observed": what or clause},
                         {"label": lab, "separator": repr(sep), "trailer": tn},
                         {"clause": clause, "results": {k: r["kind"] for k, r in ev.get("results", {}).items()} if ev["ev"] == "read" else ev})
    rep.sample({"label": labels[1], "separator": "\\n", "trailer": "bytes-0-255", "entry_points": sorted(["load_str_path", "load_pathlike", "loadu_file_url", "load_text_stream", "load_binary_stream"])})
