"""C14 - date and time values keep their type, instant and time-zone meaning."""
import datetime, json, os, warnings
from .. import tlc, loaders
from ..common import pool_map, chunks
from ..projection import project
from . import classify

NAIVE = 10000


def _decode(job):
    d, text, ref = job
    g, dec, enc = classify.tools(d)
    out = []
    # (a) the decoder on the bare text
    try:
        with warnings.catch_warnings():
            warnings.simplefilter("ignore")
            v = dec.decode_datetime(text)
        got = ("value", project(v))
    except ValueError:
        got = ("ValueError", None)
    except Exception as e:
        got = ("escape:" + type(e).__name__, None)
    c = ref["c"]
    obs = None
    if got[0].startswith("escape"):
        obs = got[0]
    elif c in ("date", "time", "datetime"):
        exp = loaders.from_tla(ref["v"])
        if got[0] != "value":
            obs = "rejected"
        elif got[1] != exp:
            obs = "wrong-value"
    elif c == "leap":
        if got[0] != "value" or got[1] != {"t": "str", "s": text, "xs": []}:
            obs = "leap-second-not-kept-as-text"
    elif c in ("unq", "nav"):
        if got[0] == "value":
            obs = "accepted-invalid"
    if obs:
        out.append(({"config": d, "locus": "decode/%s/%s" % (ref["k"], c), "features": loaders.text_features(text), "observed": obs},
                    {"config": d, "text": text, "via": "decode_datetime"}, {"reference": c, "expected": ref["v"] and loaders.from_tla(ref["v"]), "got": got}))
    # (b) through the loader (exercises the lexer's sign rule)
    lref = loaders.ref_outcome(ref["l"])
    lobs = loaders.load(d, "T = " + text + "\nEND")
    j = loaders.judge(dict(lref, locus=lref.get("why", "")), lobs, loaders.GRAMMAR_CFG[d] == "tolerant")
    if j is not None:
        out.append(({"config": d, "locus": "load/%s/%s" % (ref["k"], c), "features": loaders.text_features(text), "observed": j[1]},
                    {"config": d, "text": "T = " + text + "\nEND", "via": "loads"}, {"reference": lref, "observed": lobs}))
    return out


def fields_of(v):
    tz = getattr(v, "tzinfo", None)
    if tz is None:
        zone = NAIVE
    else:
        off = tz.utcoffset(v if isinstance(v, datetime.datetime) else None)
        zone = NAIVE if off is None else int(off.total_seconds() // 60)
    kind = "datetime" if isinstance(v, datetime.datetime) else ("date" if isinstance(v, datetime.date) else "time")
    return {"kind": kind, "y": getattr(v, "year", 0), "m": getattr(v, "month", 0), "dd": getattr(v, "day", 0),
            "H": getattr(v, "hour", 0), "M": getattr(v, "minute", 0), "S": getattr(v, "second", 0),
            "us": getattr(v, "microsecond", 0), "zone": zone}


class SeasonalZone(datetime.tzinfo):
    """a zone whose offset depends on the date (like any real-world zone with daylight saving time)"""

    def utcoffset(self, dt):
        if dt is None:
            return None
        return datetime.timedelta(hours=-4 if 4 <= dt.month <= 10 else -5)

    def dst(self, dt):
        return None if dt is None else datetime.timedelta(hours=1 if 4 <= dt.month <= 10 else 0)

    def tzname(self, dt):
        return "Seasonal"


def py_values(thorough):
    tzs = [None, datetime.timezone.utc] + [datetime.timezone(datetime.timedelta(minutes=m)) for m in (60, -60, 330, -330, 720, -720, 780, -780, 825, 1, -1)]
    dates = [datetime.date(y, m, d) for y in (1, 999, 1000, 2000, 2001, 9999) for (m, d) in ((1, 1), (2, 28), (12, 31))] + [datetime.date(2000, 2, 29)]
    times = []
    for h in (0, 12, 23):
        for mi in (0, 59):
            for s in (0, 10, 30, 59):
                for us in (0, 5, 5000, 500000, 123000, 123456, 999999):
                    times.append((h, mi, s, us))
    if not thorough:
        times = times[::3]
    vals = list(dates)
    for tz in tzs:
        for t in times:
            vals.append(datetime.time(*t, tzinfo=tz))
        for dt in dates[::4]:
            for t in times[::5]:
                vals.append(datetime.datetime(dt.year, dt.month, dt.day, *t, tzinfo=tz))
    for (y, mo, d) in ((2020, 7, 1), (2020, 1, 15), (1999, 12, 31)):
        for t in ((12, 0, 0, 0), (23, 30, 15, 250000)):
            vals.append(datetime.datetime(y, mo, d, *t, tzinfo=SeasonalZone()))
    return vals


def _encode(job):
    d, idx = job
    v = _VALS[idx]
    g, dec, enc = classify.tools(d)
    encs = [("default", enc)]
    if d == "PDS3":
        import pvl.encoder as E
        encs.append(("time_trailing_z=False", E.PDSLabelEncoder(time_trailing_z=False)))
    out = []
    for name, e in encs:
        ev = {"d": d, "f": fields_of(v), "refused": False, "text": [], "opt": name}
        try:
            with warnings.catch_warnings():
                warnings.simplefilter("ignore")
                ev["text"] = [ord(c) for c in e.encode_value(v)]
        except (ValueError, TypeError):
            ev["refused"] = True
        except Exception as ex:
            ev["refused"] = False
            ev["text"] = [ord(c) for c in "!" + type(ex).__name__]
        out.append(ev)
    return out


_VALS = []


def run(ctx, rep):
    from ..common import import_pvl
    import_pvl()
    rep.rule = ("decode: texts rendered by TLC from the boundary product of date/time fields (spec/MC_DateTime.tla; the model check "
                "shows the recogniser agrees with the field-level expectation) x 5 dialects, through decoder.decode_datetime and "
                "through loads('T = ...'); encode: Python date/time/datetime values over the same boundaries x 4 encoders, the written "
                "text judged by TLC (spec/Trace_Time.tla: same type, instant, precision, or refusal). thorough adds every day of "
                "years 1-9999 in both date forms from the TLC calendar table. distinct = (dialect, text) / (dialect, value); "
                "non-trivial = has a time or an invalid/boundary date")
    p = os.path.join(ctx.scratch, "dt.cfg")
    with open(p, "w") as f:
        f.write("SPECIFICATION Spec\nCONSTANT Emit = TRUE\nCONSTANT Full = %s\nINVARIANT ReaderAgrees\nINVARIANT EmitCase\nCHECK_DEADLOCK FALSE\n"
                % ("TRUE" if ctx.thorough else "FALSE"))
    r = tlc.run("MC_DateTime", p, workers=16, scratch=ctx.scratch, xss="64m", timeout=3000)
    if r.violation:
        raise RuntimeError("recogniser and field-level expectation disagree on the model: " + r.violation + r.raw[-1500:])
    rep.tlc("MC_DateTime: boundary product, ReaderAgrees", r)
    rep.exhaustive["boundary product of date/time fields x 5 dialects"] = True
    jobs = []
    for c in r.printed:
        text = loaders.cps(c["text"])
        for d, o in c["o"].items():
            jobs.append((d, text, o))
    res = pool_map(_decode, jobs, chunksize=200)
    for j, out in zip(jobs, res):
        rep.case("decode/" + j[0], (j[0], j[1]), True)
        if not out:
            rep.traces_validated += 1
        for sig, case, detail in out:
            rep.fail(sig, case, detail)
    rep.sample({"text": jobs[len(jobs) // 2][1], "dialect": jobs[len(jobs) // 2][0], "reference_class": jobs[len(jobs) // 2][2]["c"]})
    # encode direction
    global _VALS
    _VALS = py_values(ctx.thorough)
    ejobs = [(d, i) for d in ("PVL", "ODL", "PDS3", "ISIS") for i in range(len(_VALS))]
    evs = [e for lst in pool_map(_encode, ejobs, chunksize=100) for e in lst]
    batches = list(chunks(evs, 5000))
    from concurrent.futures import ThreadPoolExecutor

    def one(args):
        bi, b = args
        path = os.path.join(ctx.scratch, "time%d.json" % bi)
        with open(path, "w") as f:
            json.dump([{k: e[k] for k in ("d", "f", "refused", "text")} for e in b], f)
        rr = tlc.run("Trace_Time", "Trace_Time.cfg", workers=4, scratch=ctx.scratch, env={"TRACE_FILE": path}, xss="64m", timeout=3000)
        os.unlink(path)
        return rr
    with ThreadPoolExecutor(4) as ex:
        results = list(ex.map(one, enumerate(batches)))
    refused = 0
    for b, rr in zip(batches, results):
        rep.tlc("Trace_Time batch", rr)
        verdicts = {v["i"]: v for v in rr.printed if "i" in v}
        if len(verdicts) != len(b):
            raise RuntimeError("Trace_Time returned %d verdicts for %d events\n%s" % (len(verdicts), len(b), rr.raw[-1500:]))
        for i, ev in enumerate(b, 1):
            v = verdicts[i]
            rep.case("encode/" + ev["d"], (ev["d"], ev["opt"], json.dumps(ev["f"], sort_keys=True)), True)
            refused += ev["refused"]
            if not v["fails"]:
                rep.traces_validated += 1
            for clause in v["fails"][:1]:
                f = ev["f"]
                zc = "naive" if f["zone"] == NAIVE else ("utc" if f["zone"] == 0 else ("east" if f["zone"] > 0 else "west"))
                fc = "us0" if f["us"] == 0 else ("ms" if f["us"] % 1000 == 0 else "sub-ms")
                yc = "y<1000" if 0 < f["y"] < 1000 else "y"
                rep.fail({"config": ev["d"], "locus": "encode/%s/%s" % (f["kind"], zc), "features": [fc, yc], "observed": clause.split(":")[0]},
                         {"config": ev["d"], "value_fields": f, "option": ev["opt"]}, {"text": loaders.cps(ev["text"]), "clause": clause})
    rep.coverage_extra["encoder_refusals"] = refused
    if ctx.thorough:
        calendar_sweep(ctx, rep)


def _sweep(job):
    y, months = job
    bad = []
    for d in loaders.CONFIGS:
        g, dec, enc = classify.tools(d)
        doy = 0
        for m, n in enumerate(months, 1):
            for dd in range(1, n + 1):
                doy += 1
                for text in ("%04d-%02d-%02d" % (y, m, dd), "%04d-%03d" % (y, doy)):
                    try:
                        v = dec.decode_datetime(text)
                        ok = type(v) is datetime.date and (v.year, v.month, v.day) == (y, m, dd)
                    except Exception:
                        ok = False
                    if not ok:
                        bad.append((d, text))
        # the day after the last one must not be a date
        for text in ("%04d-%03d" % (y, doy + 1), "%04d-02-%02d" % (y, months[1] + 1)):
            try:
                dec.decode_datetime(text)
                bad.append((d, text))
            except ValueError:
                pass
            except Exception:
                bad.append((d, text))
    return bad, sum(months) * 2 * 5


def calendar_sweep(ctx, rep):
    r = tlc.run("MC_Calendar", "MC_Calendar.cfg", workers=16, scratch=ctx.scratch, timeout=3000)
    if r.violation:
        raise RuntimeError("calendar lemma fails: " + r.violation)
    rep.tlc("MC_Calendar: lemma and table for years 1..9999", r)
    rows = sorted(r.printed, key=lambda x: x["y"])
    if len(rows) != 9999:
        raise RuntimeError("calendar table incomplete")
    res = pool_map(_sweep, [(x["y"], x["months"]) for x in rows], chunksize=50)
    total = 0
    for (bad, n) in res:
        total += n
        for d, text in bad[:3]:
            rep.fail({"config": d, "locus": "calendar-sweep", "observed": "wrong-or-rejected"}, {"config": d, "text": text}, {})
    rep.evaluations += total
    rep.exhaustive["every day of years 0001-9999 in both date forms x 5 dialects"] = True
    rep.coverage_extra["calendar_sweep_decodes"] = total
