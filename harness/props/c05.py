"""C05 - ill-formed text is rejected, never silently truncated (token level)."""
from . import tokenlevel


def run(ctx, rep):
    maxlen = 8 if ctx.thorough else 7
    rep.rule = ("every token sequence of length <= %d over 19 abstract token kinds whose proper prefixes are live in the "
                "reference grammar (spec/PvlGrammar.tla; includes every truncation and every one-token dead extension), "
                "spelled canonically in two layouts, loaded with the 5 parser configurations; a module returned where the "
                "reference rejects is a C05 violation; character level: every string <= 4 (5 thorough) over an 18-character PVL-significant alphabet and <= 3/4 over two further alphabets (spec/MC_Loader.tla, reference lexer composed with the grammar), 5 configurations. distinct = (config, token sequence, layout); non-trivial = >= 3 tokens"
                % maxlen)
    fails = tokenlevel.run_tokens(ctx, rep, maxlen, ["C05"])
    other = {}
    for prop, sig, case, detail in fails:
        if prop == "C05":
            rep.fail(sig, case, detail)
        else:
            other[prop] = other.get(prop, 0) + 1
    from . import strings
    for prop, sig, case, detail in strings.run_strings(ctx, rep):
        if prop == "C05":
            rep.fail(sig, case, detail)
        else:
            other[prop] = other.get(prop, 0) + 1
    from . import damage
    for prop, sig, case, detail in damage.run_damage(ctx, rep):
        if prop == "C05":
            rep.fail(sig, case, detail)
        else:
            other[prop] = other.get(prop, 0) + 1
    from . import probes
    for prop, sig, case, detail in probes.run_probes(ctx, rep):      # hand-written unusual texts, judged by the reference like the rest
        if prop == "C05":
            rep.fail(sig, case, detail)
        else:
            other[prop] = other.get(prop, 0) + 1
    rep.coverage_extra["failures_attributed_to_other_properties"] = other
