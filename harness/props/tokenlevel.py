"""Token-level conformance shared by C05, C06 and C08: every abstract token sequence the reference
grammar (spec/MC_Grammar.tla) explores is concretised with canonical spellings and loaded by the
real parsers; the outcome is compared with the reference outcome TLC printed for it."""
import copy, json, os
from .. import tlc, loaders
from ..common import pool_map

SPELL = {"Wa": "a", "Wb": "b", "Vn": "1", "Vs": "'s'", "U": "<m>", "BG": "GROUP", "BO": "OBJECT",
         "EG": "END_GROUP", "EO": "END_OBJECT", "END": "END", "J": "&", "C": "/* c */"}


def concretise(toks, sep):
    return sep.join(SPELL.get(t, t) for t in toks)


def flatten_lines(ref):
    """Expected outcome when all tokens stand on one line: every line number is 1."""
    r = copy.deepcopy(ref)

    def walk(n):
        if n["t"] == "empty":
            n["s"] = "1"
        for x in n["xs"]:
            walk(x)
    if r["verdict"] == "accept":
        walk(r["tree"])
        r["errs"] = [1 for _ in r["errs"]]
    return r


def emit_cases(ctx, rep, dialect, maxlen):
    p = os.path.join(ctx.scratch, "gram_%s.cfg" % dialect)
    with open(p, "w") as f:
        f.write("SPECIFICATION Spec\nCONSTANT MaxLen = %d\nCONSTANT Dialect = \"%s\"\nCONSTANT Emit = TRUE\n"
                "INVARIANT RejectHasLocus\nINVARIANT AcceptMeansClosed\nINVARIANT ErrsOnlyIfTolerant\n"
                "INVARIANT NothingAfterEnd\nINVARIANT EofTotal\nINVARIANT ErrsAscending\nINVARIANT EmitCase\n"
                "CHECK_DEADLOCK FALSE\n" % (maxlen, dialect))
    r = tlc.run("MC_Grammar", p, workers=1, scratch=ctx.scratch, timeout=7000, heap="12g")
    if r.violation:
        raise RuntimeError("reference grammar violates its own theorems: " + r.violation)
    rep.tlc("MC_Grammar %s, all token sequences <= %d" % (dialect, maxlen), r)
    rep.exhaustive["token sequences <= %d (%s)" % (maxlen, dialect)] = True
    cases = r.printed
    for c in cases:
        c["o"] = loaders.ref_outcome(c["o"])
    return cases


def _one(job):
    config, toks, ref, layout = job
    sep = " " if layout == "sp" else "\n"
    text = concretise(toks, sep)
    r = ref if layout == "nl" else flatten_lines(ref)
    obs = loaders.load(config, text)
    j = loaders.judge(r, obs, loaders.GRAMMAR_CFG[config] == "tolerant")
    if j is None:
        return None
    return (j[0], {"config": config, "locus": (r["locus"] if r["verdict"] == "reject" else "accept"),
                   "features": loaders.features(r["tree"]), "observed": j[1]},
            {"config": config, "text": text, "tokens": toks},
            {"reference": r, "observed": obs})


def run_tokens(ctx, rep, maxlen, owner_props, configs=None):
    """Returns failures as a list of (property, sig, case, detail); counts go to rep."""
    from ..common import import_pvl
    import_pvl()
    configs = configs or loaders.CONFIGS
    fails = []
    cache = {}
    for config in configs:
        d = loaders.GRAMMAR_CFG[config]
        if d not in cache:
            cache[d] = emit_cases(ctx, rep, d, maxlen)
        cases = cache[d]
        jobs = []
        for c in cases:
            if not c["toks"]:
                continue
            jobs.append((config, c["toks"], c["o"], "nl"))
            if len(c["toks"]) <= maxlen - 1:
                jobs.append((config, c["toks"], c["o"], "sp"))
        res = pool_map(_one, jobs, chunksize=500)
        for j, out in zip(jobs, res):
            nontriv = len(j[1]) >= 3
            rep.case("tokens/" + config, (config, tuple(j[1]), j[3]), nontriv)
            if out is not None:
                fails.append(out)
            else:
                rep.traces_validated += 1
        rep.sample({"config": config, "tokens": cases[len(cases) // 2]["toks"],
                    "text": concretise(cases[len(cases) // 2]["toks"], " "),
                    "reference": cases[len(cases) // 2]["o"]["verdict"]}, limit=8)
    return fails
