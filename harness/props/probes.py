"""Hand-written probe texts: unusual but short labels that the generators do not produce (case-variant block names,
trailing commas, empty units, braces in odd places, keywords of another dialect, integers beyond the float range,
comments whose body ends in '/', ...).  Nothing here is an oracle: every text goes to the reference loader (TLC,
spec/Trace_Load.tla) and the real outcome is judged against what the reference says (loaders.judge), exactly like
the generated cases.  C05 keeps the failures attributed to C05, C06 the escapes and hangs, C03 the rest."""
from .. import loaders, refsvc
from ..common import pool_map

BIG = "1" + "0" * 320
PROBES = [
    # block names and end statements
    "Object = Image\n a = 1\nEnd_Object = IMAGE\nEND\n", "GROUP = g\n a = 1\nEND_GROUP = G\nEND\n",
    "OBJECT = o\n a = 1\nEND_OBJECT = o\nEND\n", "GROUP = g\n a = 1\nEND_OBJECT = g\nEND\n", "GROUP = g\n a = 1\nEND_GROUP = h\nEND\n",
    "BEGIN_GROUP = g\n a = 1\nEND_GROUP = g\nEND\n", "BEGIN_OBJECT = o\n a = 1\nEND_OBJECT\nEND\n", "Begin_Group = g\n a = 1\nEnd_Group\nEnd\n",
    "GROUP = g\nEND_GROUP\nEND\n", "GROUP = g\n GROUP = g\n  a = 1\n END_GROUP = g\nEND_GROUP = g\nEND\n",
    "GROUP = g\n a = 1\nEND_GROUP \u0001\nb = 2\nEND\n", "OBJECT = o\n a = 1\nEND_OBJECT \u20ac\nb = 2\nEND\n", "GROUP = g\n a = 1\nEND_GROUP = \u0001g\nb = 2\nEND\n",
    "GROUP =\n", "GROUP = /* c */\n", "a = 1\nGROUP = ", "GROUP = g\n a = 1\nEND_GROUP =", "OBJECT = o\nEND_OBJECT = /* c */\n",
    # collections
    "a = (1, 2, )\nEND\n", "a = {RED,}\nEND\n", "a = ((0, 0), )\nEND\n", "a = (,)\nEND\n", "a = (1,,2)\nEND\n", "a = (1, 2, }\nEND\n",
    "a = (1 2)\nEND\n", "a = ()\nb = {}\nEND\n", "a = (((1)))\nEND\n", "a = {{1}}\nEND\n", "a = ({1}, (2))\nEND\n",
    "a = (5 <m> /* c */, 6)\nEND\n", "a = {3 <kg> /* c */}\nEND\n", "a = (1 <m>, 2 <s>) <q>\nEND\n",
    # units
    "a = 5 <>\nEND\n", "a = 5 < >\nEND\n", "a = (1, 2 <\t>)\nEND\n", "a = 5 <m{x}>\nEND\n", "a = 5 <m\nEND\n", "a = 0 <m>\nb = -0.0 <deg>\nEND\n",
    "a = 'x' <m>\nEND\n", "a = 5 <m> <s>\nEND\n", "a = FALSE <m>\nEND\n", "a = (TRUE <m>, 1)\nEND\n", "a = NULL <m>\nEND\n", "a = 2001-01-01 <m>\nEND\n",
    # braces, quotes and format characters in messages
    "a = (1 '{x}', 2)\nEND\n", "a = 1 \"{x}\"\nEND\n", "a = 1 '{}'\nEND\n", "b = (1, 2}\nEND\n", "b = }\nEND\n", "}\na = 1\nEND\n", "a = %s\nEND\n", "a = {0}\nEND\n",
    # numbers at the edges
    "a = %s\nEND\n" % BIG, "a = (%s, 1)\nEND\n" % BIG, "%s = 1\nEND\n" % BIG, "a = 1.25e400\nEND\n", "a = 2.5e-400\nEND\n", "a = -1e+16\nb = 1.5E+3\nEND\n",
    "a = 16#%s#\nEND\n" % ("F" * 300), "a = 1e\nEND\n", "a = +\nEND\n", "a = 1.5.2\nEND\n", "a = 0x1F\nEND\n",
    # long bare words (a recogniser that backtracks must still give up in time)
    "a = %s-\nEND\n" % ("x" * 40), "a = %s.b\nEND\n" % ("ab1" * 14), "a = %s_\nEND\n" % ("x" * 36), "%s- = 1\nEND\n" % ("k" * 40),
    "a = %s\nEND\n" % ("1" * 60 + "e"), "a = %s\nEND\n" % ("12:" * 20), "a = %s\nEND\n" % ("2001-" * 12),
    # comments
    "a = 1 /* files live in data/*/ b = 2\nEND\n", "a = 1 /**/ b = 2\nEND\n", "/**/\na = 1\nEND\n", "a = 1 /* x /*/ b = 2 /* y */\nEND\n", "a = 1 /* unterminated\nEND\n",
    "a = /* c */ 1\nEND\n", "a /* c */ = 1\nEND\n", "/* only a comment */\n", "a = 1 # c\nEND\n", "a = 1 #\nb = 2\nEND\n", "#\na = 1\nEND\n", "a = 1 # unterminated", "a = 1 /* c */",
    # statements in odd places
    "END\n", "", "\n\n", ";\n", "a = 1;;\nEND\n", "= 1\nEND\n", "a\nEND\n", "a = = 1\nEND\n", "a = 1 = 2\nEND\n", "a = 1 b\nEND\n", "END = 1\n", "a = END\n",
    "a = 1\nEND\nb = 2\n", "a = 1\nEND;garbage ( {", "a = 1\nEND_GROUP\nEND\n", "a = GROUP\nEND\n", "a = 'unterminated\nEND\n", "a = \"x\" \"y\"\nEND\n",
    # dates and times
    "t = 12:30:00.250\nEND\n", "t = 2001-12-31T23:59:59.123456Z\nEND\n", "t = 12:00:00-03:30\nu = 12:00-00:30\nEND\n", "d = 0999-12-31T23:59:59\nEND\n",
    "d = 2001-02-29\nEND\n", "d = 2000-02-29\nEND\n", "t = 24:00:00\nEND\n", "t = 23:59:60\nEND\n",
    # missing values next to names that are not plain identifiers
    "a =\n^IMAGE = 5\nEND\n", "a =\nMRO:GAIN = 2\nEND\n", "a =\nstart-time = 1\nEND\n", "a =\nraw_ = 1\nEND\n", "a = # c = d\nb = 2\nEND\n",
    "GROUP = g\n a =\n ^P = 1\nEND_GROUP\nEND\n",
    # characters
    "﻿a = 1\nEND\n", "a =  \nEND\n", "a = x y\nEND\n", "a = \"x\u0007y\u007f\"\nEND\n", "a = 'café °'\nEND\n", "a = 1\r\nb = 2\rc = 3\r\nEND\r\n",
    "a = 'p-\r\n  q'\nEND\n", "a = x-\n  y\nEND\n",
]


def _load(job):
    return loaders.load(job[0], job[1])


def run_probes(ctx, rep):
    """returns failures [(property, sig, case, detail)] like the other engines"""
    from ..common import import_pvl
    import_pvl()
    items = [(d, t) for t in PROBES for d in loaders.CONFIGS]
    refs = refsvc.ref_load(ctx, rep, items, batch=400, name="Trace_Load (probe texts)")
    obs = pool_map(_load, items, chunksize=20)
    fails = []
    for (d, t), (ref, _), o in zip(items, refs, obs):
        rep.case("probes/" + d, (d, t), True)
        j = loaders.judge(ref, o, loaders.GRAMMAR_CFG[d] == "tolerant")
        if j is None:
            rep.traces_validated += 1
            continue
        locus = ("accept" if ref["verdict"] == "accept" else ("unspecified" if ref["verdict"] == "unspec" else (ref["why"] if ref["kind"] == "parse" else "lex:" + ref["why"])))
        fails.append((j[0], {"config": d, "locus": locus, "features": loaders.features(ref["tree"]) + loaders.text_features(t) + ["probe"], "observed": j[1]},
                      {"config": d, "text": t}, {"reference": ref, "observed": o}))
    return fails
