"""Generated well-formed labels (spec/MC_Doc.tla): spellings (C03) and layouts (C04)."""
import json, os
from .. import tlc, loaders
from ..common import pool_map


def emit(ctx, rep, dialect, profile, maxstmts):
    p = os.path.join(ctx.scratch, "doc_%s_%s.cfg" % (dialect, profile))
    with open(p, "w") as f:
        f.write('SPECIFICATION Spec\nCONSTANT Dialect = "%s"\nCONSTANT MaxStmts = %d\nCONSTANT Profile = "%s"\nCONSTANT Emit = TRUE\n'
                'INVARIANT RefReadsGenerated\nINVARIANT RetagChangesNothingElse\nINVARIANT EmitCase\nCHECK_DEADLOCK FALSE\n' % (dialect, maxstmts, profile))
    if profile == "random":          # random walks through the generator (TLC -simulate), seeded
        r = tlc.run("MC_Doc", p, workers=8, scratch=ctx.scratch, xss="64m", timeout=7000, heap="12g",
                    simulate="num=%d" % (150 if ctx.thorough else 12), depth=45, seed=ctx.seed + 1)
    else:
        r = tlc.run("MC_Doc", p, workers=16, scratch=ctx.scratch, xss="64m", timeout=7000, heap="12g")
    if r.violation:
        raise RuntimeError("reference loader and generator disagree on the model (spec error): " + r.violation + r.raw[-2500:])
    rep.tlc("MC_Doc %s profile=%s <=%d statements: reader = writer on every (label, layout)" % (dialect, profile, maxstmts), r)
    rep.exhaustive["generated labels %s/%s/<=%d statements" % (dialect, profile, maxstmts)] = profile != "random"
    return r.printed


def _one(job):
    config, text, tree, lay, errs = job
    obs = loaders.load(config, text)
    if errs and loaders.GRAMMAR_CFG[config] != "tolerant":
        ref = {"verdict": "reject", "tree": tree, "errs": [], "locus": "missing-value"}
    else:
        ref = {"verdict": "accept", "tree": tree, "errs": errs, "locus": "accept"}
    j = loaders.judge(ref, obs, loaders.GRAMMAR_CFG[config] == "tolerant")
    if j is None:
        return None
    return (j[0], {"config": config, "locus": ref["locus"], "features": loaders.features(tree) + loaders.text_features(text) + ["layout:" + lay],
                   "observed": j[1]},
            {"config": config, "text": text}, {"expected_tree": tree, "observed": obs})


def run_docs(ctx, rep, profile, maxstmts, owner, keep=None):
    """All generated (label, layout) cases loaded by the real parsers; returns failures (re-attributed to owner when C03)."""
    from ..common import import_pvl
    import_pvl()
    fails = []
    for config in loaders.CONFIGS:
        cases = emit(ctx, rep, config, profile, maxstmts[config] if isinstance(maxstmts, dict) else maxstmts)
        if keep is not None:
            keep[config] = cases
        jobs = []
        for c in cases:
            lay = c["lay"]
            sep = lay["sep"]
            layname = "%s%s" % (lay["k"], (":sep%d" % sep) if lay["k"] == "one" else (":%d" % sep))
            jobs.append((config, loaders.cps(c["text"]), loaders.from_tla(c["tree"]), layname, [int(x) for x in c.get("errs", [])]))
        res = pool_map(_one, jobs, chunksize=300)
        for j, out in zip(jobs, res):
            rep.case("docs/%s/%s" % (profile, config), (config, j[1]), len(j[2]["xs"]) > 1 or any(x["xs"][0]["xs"] for x in j[2]["xs"]))
            if out is None:
                rep.traces_validated += 1
            else:
                prop = out[0]
                if owner == "C04" and prop == "C03":
                    prop = "C04"
                if owner == "C08" and prop in ("C03", "C05"):
                    prop = "C08"
                fails.append((prop,) + out[1:])
        mid = jobs[len(jobs) // 2]
        rep.sample({"config": config, "text": mid[1], "layout": mid[3]}, limit=10)
    return fails
