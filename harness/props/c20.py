"""C20 - command-line tools are faithful front-ends of the library."""
import contextlib, glob, io, json, os, shutil, tempfile, warnings
from .. import tlc, loaders
from ..common import pool_map, REPO
from . import docs, tokenlevel, c19

DIALECTS = ["PDS3", "ODL", "PVL", "ISIS", "Omni"]


def lib_cells(text, path=None):
    """the library calls the tool is a front end of, made directly on fresh instances (as specified in Frontends.tla)"""
    import pvl, pvl.grammar as G, pvl.decoder as D, pvl.encoder as E, pvl.parser as P
    mk = {
        "PDS3": lambda: (G.PDSGrammar(), D.PDSLabelDecoder, P.ODLParser, E.PDSLabelEncoder),
        "ODL": lambda: (G.ODLGrammar(), D.ODLDecoder, P.ODLParser, E.ODLEncoder),
        "PVL": lambda: (G.PVLGrammar(), D.PVLDecoder, P.PVLParser, E.PVLEncoder),
        "ISIS": lambda: (G.ISISGrammar(), D.OmniDecoder, P.OmniParser, E.ISISEncoder),
        "Omni": lambda: (G.OmniGrammar(), D.OmniDecoder, P.OmniParser, E.PVLEncoder),
    }
    cells = {}
    for d in DIALECTS:
        g, dc, pc, ec = mk[d]()
        dec = dc(grammar=g)
        try:
            if isinstance(text, bytes):      # a label followed by binary data: "that dialect's load of the file"
                m = pvl.load(path, parser=pc(grammar=g, decoder=dec))
            else:
                m = pvl.loads(text, parser=pc(grammar=g, decoder=dec))
            try:
                pvl.dumps(m, encoder=ec(grammar=g, decoder=dec))
                cells[d] = {"loads": True, "encodes": True}
            except Exception:
                cells[d] = {"loads": True, "encodes": False}
        except Exception:
            cells[d] = {"loads": False, "encodes": False}
    return cells


def parse_report(out, files):
    rows = []
    lines = [l for l in out.splitlines() if l.strip()]
    if len(files) == 1:
        cells = {}
        for l in lines:
            parts = [p.strip() for p in l.split("|")]
            if len(parts) == 3 and parts[0] in DIALECTS:
                cells[parts[0]] = {"loads": parts[1] == "Loads",
                                   "encodes": {"Encodes": "yes", "does NOT encode": "no", "": "n/a"}.get(parts[2], "?" + parts[2])}
                if parts[1] not in ("Loads", "does NOT load"):
                    cells[parts[0]]["encodes"] = "?" + parts[1]
        rows.append({"file": files[0], "cells": cells})
    else:
        for l in lines:
            parts = [p.strip() for p in l.split("|")]
            if len(parts) == 6 and parts[0] in files:
                cells = {}
                for d, c in zip(DIALECTS, parts[1:]):
                    toks = c.split()
                    loads = c.startswith("L")
                    rest = c[1:].strip() if loads else c[len("No L"):].strip()
                    cells[d] = {"loads": loads, "encodes": {"E": "yes", "No E": "no", "": "n/a"}.get(rest, "?" + rest)}
                rows.append({"file": parts[0], "cells": cells})
    for r in rows:
        for d in DIALECTS:
            r["cells"].setdefault(d, {"loads": False, "encodes": "?missing"})
    return rows


def to_pairs(v):
    """what the JSON document must parse to (object_pairs_hook=list): nested names and values"""
    import pvl.collections as c
    if isinstance(v, c.OrderedMultiDict):
        return [[k, to_pairs(x)] for k, x in v]
    if isinstance(v, c.Quantity):
        return [to_pairs(v.value), v.units]
    if isinstance(v, (list, tuple)):
        return [to_pairs(x) for x in v]
    if isinstance(v, str):
        return str(v)
    if v is None or isinstance(v, (bool, int, float)):
        return v
    raise TypeError("not JSON")


def pairs_of(obj):
    if isinstance(obj, list) and all(isinstance(x, tuple) for x in obj) and obj:
        return [[k, pairs_of(v)] for k, v in obj]
    if isinstance(obj, list):
        return [pairs_of(x) for x in obj]
    return obj


def _invoke(job):
    import pvl, pvl.pvl_validate as V, pvl.pvl_translate as T, pvl.encoder as E
    inv, paths, texts, tmpdir = job
    files = [paths[i - 1] for i in inv["files"]]
    with warnings.catch_warnings():
        warnings.simplefilter("ignore")
        if inv["tool"] == "validate":
            buf = io.StringIO()
            completed = True
            try:
                with contextlib.redirect_stdout(buf), contextlib.redirect_stderr(io.StringIO()):
                    V.main(files)
            except BaseException as e:
                completed = False
            rows = parse_report(buf.getvalue(), files) if completed else []
            lib = [{"file": f, "cells": {d: {"loads": c["loads"], "encodes": c["encodes"]} for d, c in lib_cells(texts[i - 1], paths[i - 1]).items()}}
                   for f, i in zip(files, inv["files"])]
            return {"ev": "validate", "nfiles": len(files), "rows": rows, "lib": lib, "completed": completed, "report": buf.getvalue()[:2000]}
        fmt = inv["fmt"]
        tool = {"ok": True, "text": ""}
        buf = io.StringIO()
        try:
            with contextlib.redirect_stdout(buf), contextlib.redirect_stderr(io.StringIO()):
                T.main(["-of", fmt, files[0]])
            tool["text"] = buf.getvalue()
        except BaseException as e:
            tool = {"ok": False, "text": type(e).__name__}
        lib = {"ok": True, "text": ""}
        json_ok = True
        encname = {"PDS3": "PDSLabelEncoder", "ODL": "ODLEncoder", "ISIS": "ISISEncoder", "PVL": "PVLEncoder"}.get(fmt, "json")
        try:
            m = pvl.load(files[0])
            if fmt == "JSON":
                expected = to_pairs(m)
                lib["text"] = "json"
                if tool["ok"]:
                    got = pairs_of(json.loads(tool["text"], object_pairs_hook=lambda p: [tuple(x) for x in p] if p else []))
                    json_ok = got == expected or (expected == [] and got in ([], {}))
                    tool["text"] = "json"
            else:
                cls = {"PDS3": E.PDSLabelEncoder, "ODL": E.ODLEncoder, "ISIS": E.ISISEncoder, "PVL": E.PVLEncoder}[fmt]
                encname = cls.__name__
                lib["text"] = pvl.dumps(m, encoder=cls())
        except Exception as e:
            lib = {"ok": False, "text": type(e).__name__}
            if not tool["ok"]:
                tool["text"] = lib["text"] = "failed"
        return {"ev": "translate", "fmt": fmt, "tool": tool, "lib": lib, "encoder": encname, "json_ok": json_ok}


def run(ctx, rep):
    from ..common import import_pvl
    import_pvl()
    rep.rule = ("a pool of label files (generated well-formed, token-level damaged, missing values, tests/data corpus) written to a "
                "scratch directory; TLC enumerates the invocations (spec/MC_Frontends.tla: every file alone and triples for pvl_validate, every "
                "(file, format) for pvl_translate); main(argv) is called in-process, the library calls are made separately on fresh instances, and "
                "TLC judges cell by cell / text by text (spec/Trace_Frontends.tla over spec/Frontends.tla). distinct = invocation; "
                "non-trivial = all")
    texts = []
    gen = [loaders.cps(c["text"]) for c in docs.emit(ctx, rep, "OMNI", "spell", 2) if c["lay"]["k"] == "style" and c["lay"]["sep"] == 2]
    texts += gen[:: max(1, len(gen) // (60 if ctx.thorough else 14))]
    tok = tokenlevel.emit_cases(ctx, rep, "tolerant", 5)
    rej = [tokenlevel.concretise(c["toks"], "\n") for c in tok if c["o"]["verdict"] == "reject" and len(c["toks"]) >= 4]
    mis = [tokenlevel.concretise(c["toks"], "\n") for c in tok if c["o"]["verdict"] == "accept" and c["o"]["errs"]]
    texts += rej[:: max(1, len(rej) // (40 if ctx.thorough else 8))] + mis[:: max(1, len(mis) // (40 if ctx.thorough else 8))]
    texts += ["\ufeffNAME = 1\nb = 'x'\nEND\n", "a = " + "(" * 2500 + "1" + ")" * 2500 + "\nEND\n", "S = {1.5, 2.5}\nEND\n",
              "a = b*/\nEND\n", "t = 12:00+01:00\nu = 12:00-05:00\nEND\n", "END\n", "/* only a comment */\n", "a = 1\nb = 5\na = 2\nOBJECT = c\n x = 1\nEND_OBJECT\nOBJECT = c\n x = 2\nEND_OBJECT\nEND\n",
              "FILTERS = {1 <m>, 2 <m>}\nEND\n", "u = 5 <m/s^2>\nv = (1, 2) <cm**-1>\nEND\n",
              b"A = 1\r\nB = 'x'\r\nGROUP = G\r\n  C = (1, 2)\r\nEND_GROUP = G\r\nEND\r\n" + bytes([0xff, 0xfe, 0x00, 0x80, 0x41]) * 60,
              b"A = 1\nEND\n\x00\x00" + bytes(range(128, 256)) * 3,
              "a = {1.5, 2}\nb = 2001-01-01\nEND\n", "s = 'x'\nq = 5 <m>\nGROUP = g\n  t = 12:00:00\nEND_GROUP\nEND\n", "a = \"é\"\nEND\n"]
    for f in sorted(glob.glob(os.path.join(REPO, "tests", "data", "**", "*"), recursive=True)):
        if os.path.isfile(f) and os.path.getsize(f) < 20000:
            b = open(f, "rb").read()
            try:
                texts.append(b.decode("utf-8"))
            except UnicodeDecodeError:
                pass
    tmpdir = tempfile.mkdtemp(prefix="pvlverif-c20-")
    try:
        paths = []
        for i, t in enumerate(texts, 1):
            p = os.path.join(tmpdir, "f%03d.lbl" % i)
            with open(p, "wb") as f:
                f.write(t if isinstance(t, bytes) else t.encode("utf-8"))
            paths.append(p)
        cfg = os.path.join(ctx.scratch, "fe.cfg")
        with open(cfg, "w") as f:
            f.write("SPECIFICATION Spec\nCONSTANT NFiles = %d\nCONSTANT Triples = %d\nINVARIANT TablesComplete\nINVARIANT EmitCase\nCHECK_DEADLOCK FALSE\n"
                    % (len(texts), min(len(texts), 40 if ctx.thorough else 12)))
        r = tlc.run("MC_Frontends", cfg, workers=1, scratch=ctx.scratch)
        rep.tlc("MC_Frontends: invocations over %d files" % len(texts), r)
        rep.exhaustive["(file, format) pairs and single-file validations over the pool"] = True
        invs = r.printed
        evs = pool_map(_invoke, [(inv, paths, texts, tmpdir) for inv in invs], chunksize=4)
    finally:
        shutil.rmtree(tmpdir, ignore_errors=True)
    pairs = []
    for inv, ev in zip(invs, evs):
        ev2 = {k: v for k, v in ev.items() if k != "report"}
        pairs.append(({"tool": inv["tool"], "files": [texts[i - 1][:200] if isinstance(texts[i - 1], str) else repr(texts[i - 1][:120]) for i in inv["files"]], "fmt": inv["fmt"]}, ev2))
    c19.judge(ctx, rep, pairs, "invocation")
    rep.sample({"invocation": invs[3], "first_file": str(texts[invs[3]["files"][0] - 1][:200])})
