"""C13 - dumping is repeatable and does not damage its argument.

TLC enumerates (module tree, script) cases from spec/MC_Dump.tla (reference Dump) and, on the
implementation-shaped variant, exhibits where `module[k] = objcls(v)` violates DumpPure.  The
harness runs every script on real modules with the four encoders, records pre/post tree
projections and text digests, and TLC (spec/Trace_Dump.tla) judges every event.
"""
import hashlib, json, os, warnings
from .. import tlc, heapops
from ..common import pool_map, chunks

_G = {}


def encoders():
    import pvl.encoder as e
    return {"PVL": e.PVLEncoder, "ODL": e.ODLEncoder, "PDS3": e.PDSLabelEncoder, "ISIS": e.ISISEncoder}


class Length(float):
    """a number that also carries .value / .units (as the float subclasses of third-party unit libraries do)"""

    def __new__(cls, value, units="m"):
        obj = super().__new__(cls, value)
        obj.units = units
        return obj

    @property
    def value(self):
        return float(self)


def _value(s):
    # atoms of the model become a few different Python value kinds
    return {"x": "x", "y": 5, "m": "m"}.get(s, s)


def build(tree, classes):
    if tree["cls"] == "atom":
        if tree["s"] == "x":
            return classes["__x__"]    # atom "x": a string chosen per session (see _session)
        if tree["s"] == "m":
            return "p q"               # atom "m": a string that needs quotes (a symbol for the ODL family)
        return classes["__qcls__"](1.5) if tree["s"] == "y" else tree["s"]     # atom "y": a value of a custom numeric class
    m = classes[tree["cls"]]()
    for k, sub in tree["items"]:
        m.append(k, build(sub, classes))
    return m


def _session(case):
    import pvl
    tree, script = case["tree"], case["script"]
    qcls = type("Length_%x" % (id(case) & 0xffffff), (Length,), {})     # a class of its own for this session
    # per session: what atom "x" is (a leap-second string whose quoting depends on the decoder's grammar; strings around half
    # the line width, where the ODL family switches quote style) and which non-default options the session's encoders get
    h = int(hashlib.blake2b(json.dumps([tree, script], sort_keys=True).encode(), digest_size=4).hexdigest(), 16)
    xval = ["23:59:60", "a" * 39, "a" * 40, "a" * 41, "ab " * 13, "20200101T120000", "12:00-01"][h % 7]
    opts = [{}, {"width": 60}, {"indent": 4}, {}][(h // 7) % 4]
    pds_opts = [{}, {"symbol_single_quote": False}, {"convert_group_to_object": True, "tab_replace": 2}][(h // 28) % 3]
    m = build(tree, dict(_G["classes"], __qcls__=qcls, __x__=xval))
    evs = []
    encs = {}
    for step in script:
        if step == "other":
            # unrelated activity: a dump of the same module with other options, an encoder of another class being configured,
            # a plain dumps() of another module
            import pvl.encoder as E
            try:
                pvl.dumps(m.copy(), indent=6, width=40)
            except Exception:
                pass
            try:
                E.ODLEncoder().add_quantity_cls(qcls, "value", "units")
                pvl.dumps(_G["classes"]["PVLModule"](z=1))
            except Exception:
                pass
            try:                        # loading something, with the default and with freshly built grammars
                import pvl.grammar as Gr
                pvl.loads("a = 20200101T120000\nb = 23:59:60\nEND\n")
                pvl.loads("a = 1\nEND\n", grammar=Gr.ODLGrammar())
                Gr.OmniGrammar(), Gr.ISISGrammar(), Gr.PDSGrammar()
            except Exception:
                pass
            # ... the session's own encoders asked for other options once, and their decoders shared with other encoders
            for enc in list(encs.values()):
                try:                    # a module this encoder refuses (a set the PDS3 encoder cannot write, a character no dialect has)
                    pvl.dumps(_G["classes"]["PVLModule"](k={1.5, "it's"}, s="caf\u0101"), encoder=enc)
                except Exception:
                    pass
                try:
                    pvl.dumps(_G["classes"]["PVLModule"]([("g", _G["classes"]["PVLGroup"](q="b" * 45))]), encoder=enc)
                except Exception:
                    pass
                try:                    # a module of the new container classes (groups and objects of other classes)
                    import pvl.new
                    pvl.dumps(pvl.new.loads("GROUP = g\n a = 1\nEND_GROUP\nOBJECT = o\n b = 2\nEND_OBJECT\nEND\n"), encoder=enc)
                except Exception:
                    pass
                try:
                    pvl.dumps(m.copy(), encoder=enc, indent=6, width=40, grammar=enc.grammar)
                    E.PVLEncoder(decoder=enc.decoder)
                    pvl.dumps(_G["classes"]["PVLModule"](z="12:00:60"), decoder=enc.decoder)
                except Exception:
                    pass
            p0 = heapops.project(m)
            evs.append({"ev": "other", "enc": "", "pre": p0, "post": p0, "text": "", "exc": ""})
            continue
        if step == "mutate":
            m.append("a", "m")
            evs.append({"ev": "mutate", "enc": "", "pre": heapops.project(m), "post": heapops.project(m), "text": "", "exc": ""})
            continue
        enc = encs.get(step)
        if enc is None and step != "DEFAULT":
            enc = encs[step] = _G["encoders"][step](**dict(opts, **(pds_opts if step == "PDS3" else {})))      # one encoder instance per dialect and session
        pre = heapops.project(m)
        try:
            with warnings.catch_warnings():
                warnings.simplefilter("ignore")
                if step == "DEFAULT":
                    t = pvl.dumps(m)
                else:
                    t = pvl.dumps(m, encoder=enc) if case.get("via", "dumps") == "dumps" else enc.encode(m)
            text, exc = hashlib.blake2b(t.encode("utf-8", "surrogatepass"), digest_size=8).hexdigest(), ""
        except Exception as e:
            text, exc = "", type(e).__name__
        evs.append({"ev": "dump", "enc": step, "pre": pre, "post": heapops.project(m), "text": text, "exc": exc})
    return {"ev": evs}


def locus_of(tree):
    """Spec-level class of the module: which shape facts hold at top level."""
    items = tree["items"]
    keys = [k for k, _ in items]
    grp = [i for i, (k, v) in enumerate(items) if v["cls"] == "PVLGroup"]
    obj = [i for i, (k, v) in enumerate(items) if v["cls"] not in ("PVLGroup", "atom")]
    parts = []
    if grp and not obj:
        parts.append("groups-without-object")
        def valid(g):
            ks = [k for k, _ in g["items"]]
            return all(v["cls"] == "atom" for _, v in g["items"]) and len(ks) == len(set(ks))
        bad = [i for i in grp if not valid(items[i][1])]
        j = bad[0] if bad else grp[0]
        k = keys[j]
        if keys.count(k) > 1:
            parts.append("converted-key-duplicated")
    return "+".join(parts) or "plain"


def run(ctx, rep):
    from ..common import import_pvl
    import_pvl()
    from . import c11
    _G["classes"] = heapops.cls_by_name()
    _G["encoders"] = encoders()
    _G["qcls"] = Length
    rep.rule = ("(module tree, script of 3 dump/mutate steps) cases enumerated by TLC from spec/MC_Dump.tla, run on "
                "real modules with the four encoders; every event judged by TLC with spec/Trace_Dump.tla "
                "(argument unchanged up to the PDS3 group->object relabel; same text/refusal as the previous dump "
                "with that encoder since the last mutation). distinct = distinct (tree, script); non-trivial = "
                "module contains a nested block")
    # design-level: the implementation-shaped PDS3 dump on the model
    r = tlc.run("MC_Dump", "MC_Dump_implold.cfg", workers=4, scratch=ctx.scratch, expect_violation=True)
    rep.tlc("MC_Dump Impl=TRUE/setitem (pre-fix PDS3 conversion: TLC exhibits the DumpPure counterexample)", r)
    rep.coverage_extra["prefix_impl_model_violates_DumpPure"] = bool(r.violation)
    r = tlc.run("MC_Dump", "MC_Dump_impl.cfg", workers=4, scratch=ctx.scratch)
    rep.tlc("MC_Dump Impl=TRUE/replace (repaired PDS3 conversion satisfies DumpPure on the model)", r)
    if r.violation:
        raise RuntimeError("implementation-shaped model of the repaired conversion violates DumpPure: " + r.violation)
    cases = []
    grid = [(3, 2, ("x",)), (2, 2, ("x", "y"))] + ([(3, 2, ("x", "y")), (2, 3, ("x", "y")), (4, 2, ("x",))] if ctx.thorough else [])
    for objs, items, atoms in grid:
        p = os.path.join(ctx.scratch, "dump.cfg")
        with open(p, "w") as f:
            f.write(c11.cfg_text(objs, items, 0, ["PVLModule"], [], True, atoms, ()).replace(
                "SPECIFICATION Spec", "SPECIFICATION DSpec").replace(
                "INVARIANT CopyEqual\nINVARIANT OrigIntact\nINVARIANT ClassesKept\nINVARIANT EmitCase\nPROPERTY Independent\n",
                'CONSTANT Impl = FALSE\nCONSTANT ImplVersion = "replace"\nCONSTANT ScriptMode = "all"\nINVARIANT EmitDump\nPROPERTY DumpPure\n'))
        r = tlc.run("MC_Dump", p, workers=1, scratch=ctx.scratch, timeout=3000)
        if r.violation:
            raise RuntimeError("reference Dump violates DumpPure (spec error): " + r.violation)
        rep.tlc("MC_Dump reference, <=%d objects x <=%d items" % (objs, items), r)
        rep.exhaustive["trees<=%dobj,%ditems x scripts" % (objs, items)] = True
        cases += r.printed
    seen = set()
    uniq = []
    for c in cases:
        k = json.dumps(c, sort_keys=True)
        if k not in seen:
            seen.add(k)
            uniq.append(c)
    cases = uniq
    # also through encoder.encode() directly for a slice of the cases
    cases += [dict(c, via="encode") for c in cases[::7]]
    sessions = pool_map(_session, cases)
    judge(ctx, rep, cases, sessions)
    rep.sample({"tree": cases[len(cases) // 2]["tree"], "script": cases[len(cases) // 2]["script"],
                "recorded": [{k: e[k] for k in ("ev", "enc", "text", "exc")} for e in sessions[len(cases) // 2]["ev"]]})


def judge(ctx, rep, cases, sessions, batch=2000):
    from concurrent.futures import ThreadPoolExecutor
    batches = list(chunks(list(zip(cases, sessions)), batch))

    def one(args):
        bi, b = args
        path = os.path.join(ctx.scratch, "dumps%d.json" % bi)
        with open(path, "w") as f:
            json.dump([s for _, s in b], f)
        r = tlc.run("Trace_Dump", "Trace_Dump.cfg", workers=1, scratch=ctx.scratch, env={"TRACE_FILE": path})
        os.unlink(path)
        return r
    with ThreadPoolExecutor(8) as ex:
        results = list(ex.map(one, enumerate(batches)))
    for b, r in zip(batches, results):
        rep.tlc("Trace_Dump batch", r)
        verdicts = {v["tid"]: v for v in r.printed if "tid" in v}
        if len(verdicts) != len(b):
            raise RuntimeError("Trace_Dump returned %d verdicts for %d traces\n%s" % (len(verdicts), len(b), r.raw[-2000:]))
        for i, (c, s) in enumerate(b, 1):
            v = verdicts[i]
            nontriv = any(x[1]["cls"] != "atom" for x in c["tree"]["items"])
            rep.case("session", json.dumps(c, sort_keys=True), nontriv)
            if v["n"] != len(s["ev"]):
                raise RuntimeError("trace not consumed")
            if not v["fails"]:
                rep.traces_validated += 1
            for fl in v["fails"][:1]:
                e = s["ev"][fl["l"] - 1]
                rep.fail({"config": e["enc"], "locus": locus_of(e["pre"]), "observed": fl["clause"]},
                         {"tree": c["tree"], "script": c["script"], "via": c.get("via", "dumps"), "step": fl["l"] - 1},
                         {"clause": fl["clause"], "pre": e["pre"], "post": e["post"], "exc": e["exc"]})
