"""Character-level conformance shared by C06, C05, C03, C15: every string up to a length bound over a
PVL-significant alphabet, as explored by TLC on spec/MC_Loader.tla (the reference loader = reference
lexical machine composed lazily with the reference grammar), is loaded by the real parsers and the
outcome compared with the reference outcome TLC printed for it."""
import json, os
from .. import tlc, loaders
from ..common import pool_map


def emit(ctx, rep, sigma, maxlen, dialects=None, workers=16):
    dialects = dialects or loaders.CONFIGS
    p = os.path.join(ctx.scratch, "loader_%s.cfg" % sigma)
    with open(p, "w") as f:
        f.write("SPECIFICATION Spec\nCONSTANT MaxLen = %d\nCONSTANT SigmaName = \"%s\"\nCONSTANT Emit = TRUE\n"
                "CONSTANT DialectSet = {%s}\nINVARIANT Total\nINVARIANT EmitCase\nCHECK_DEADLOCK FALSE\n"
                % (maxlen, sigma, ", ".join('"%s"' % d for d in dialects)))
    r = tlc.run("MC_Loader", p, workers=workers, scratch=ctx.scratch, timeout=7000, heap="16g", xss="256m")
    if r.violation:
        raise RuntimeError("reference loader is not total: " + r.violation)
    rep.tlc("MC_Loader sigma=%s, all strings <= %d" % (sigma, maxlen), r)
    rep.exhaustive["strings <= %d over sigma %s" % (maxlen, sigma)] = True
    if len(r.printed) != r.distinct:
        raise RuntimeError("emitted %d cases for %d states" % (len(r.printed), r.distinct))
    return r.printed


def _one(job):
    config, text, ref = job
    obs = loaders.load(config, text)
    j = loaders.judge(ref, obs, loaders.GRAMMAR_CFG[config] == "tolerant")
    if j is None:
        return None
    locus = ("accept" if ref["verdict"] == "accept" else
             ("unspecified" if ref["verdict"] == "unspec" else (ref["why"] if ref["kind"] == "parse" else "lex:" + ref["why"])))
    return (j[0], {"config": config, "locus": locus, "features": (loaders.features(ref["tree"]) if ref["verdict"] == "accept" else []) + loaders.text_features(text),
                   "observed": j[1]},
            {"config": config, "text": text}, {"reference": ref, "observed": obs})


def run_strings(ctx, rep, plan=None):
    from ..common import import_pvl
    import_pvl()
    plan = plan or ([("core", 5), ("ext", 4), ("num", 4), ("cmt", 6)] if ctx.thorough else [("core", 4), ("ext", 3), ("num", 3), ("cmt", 5)])
    fails = []
    for sigma, maxlen in plan:
        cases = emit(ctx, rep, sigma, maxlen)
        jobs = []
        for c in cases:
            text = loaders.cps(c["text"])
            for config, o in c["o"].items():
                ref = loaders.ref_outcome(o)
                ref["locus"] = ref.get("why", "")
                jobs.append((config, text, ref))
        res = pool_map(_one, jobs, chunksize=500)
        for j, out in zip(jobs, res):
            rep.case("strings/%s/%s" % (sigma, j[0]), (j[0], j[1]), len(j[1]) >= 3)
            if out is not None:
                fails.append(out)
            else:
                rep.traces_validated += 1
        mid = cases[len(cases) // 2]
        rep.sample({"sigma": sigma, "text": loaders.cps(mid["text"]),
                    "reference": {k: v["verdict"] for k, v in mid["o"].items()}}, limit=10)
    return fails
