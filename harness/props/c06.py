"""C06 - loaders terminate and fail only with the documented error types."""
from . import tokenlevel


def run(ctx, rep):
    maxlen = 8 if ctx.thorough else 7
    rep.rule = ("token level: every token sequence <= %d the reference grammar explores, two layouts, 5 parser "
                "configurations, each load under a 2 s watchdog; hang or an exception other than LexerError/ParseError is "
                "a C06 violation; character level: every string <= 4 (5 thorough) over an 18-character alphabet and <= 3/4 over two further alphabets (control, non-ASCII and numeric characters) explored by TLC on spec/MC_Loader.tla, 5 configurations. distinct = (config, token sequence, layout); non-trivial = >= 3 tokens" % maxlen)
    fails = tokenlevel.run_tokens(ctx, rep, maxlen, ["C06"])
    other = {}
    for prop, sig, case, detail in fails:
        if prop == "C06":
            rep.fail(sig, case, detail)
        else:
            other[prop] = other.get(prop, 0) + 1
    rep.coverage_extra["failures_attributed_to_other_properties"] = other
    from . import strings
    for prop, sig, case, detail in strings.run_strings(ctx, rep):
        if prop == "C06":
            rep.fail(sig, case, detail)
        else:
            other[prop] = other.get(prop, 0) + 1
    rep.coverage_extra["failures_attributed_to_other_properties"] = other
