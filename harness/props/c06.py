"""C06 - loaders terminate and fail only with the documented error types."""
from . import tokenlevel


def run(ctx, rep):
    maxlen = 8 if ctx.thorough else 7
    rep.rule = ("token level: every token sequence <= %d the reference grammar explores, two layouts, 5 parser "
                "configurations, each load under a 2 s watchdog; hang or an exception other than LexerError/ParseError is "
                "a C06 violation; character level: every string <= 4 (5 thorough) over an 18-character alphabet and <= 3/4 over two further alphabets (control, non-ASCII and numeric characters) explored by TLC on spec/MC_Loader.tla, 5 configurations. distinct = (config, token sequence, layout); non-trivial = >= 3 tokens" % maxlen)
    parser_loop_model(ctx, rep)
    generator_protocol(ctx, rep)
    fails = tokenlevel.run_tokens(ctx, rep, maxlen, ["C06"])
    other = {}
    for prop, sig, case, detail in fails:
        if prop == "C06":
            rep.fail(sig, case, detail)
        else:
            other[prop] = other.get(prop, 0) + 1
    values(ctx, rep, other)
    rep.coverage_extra["failures_attributed_to_other_properties"] = other
    from . import strings
    for prop, sig, case, detail in strings.run_strings(ctx, rep):
        if prop == "C06":
            rep.fail(sig, case, detail)
        else:
            other[prop] = other.get(prop, 0) + 1
    from . import damage
    for prop, sig, case, detail in damage.run_damage(ctx, rep):
        if prop == "C06":
            rep.fail(sig, case, detail)
        else:
            other[prop] = other.get(prop, 0) + 1
    from . import probes
    for prop, sig, case, detail in probes.run_probes(ctx, rep):      # hand-written unusual texts, judged by the reference like the rest
        if prop == "C06":
            rep.fail(sig, case, detail)
        else:
            other[prop] = other.get(prop, 0) + 1
    rep.coverage_extra["failures_attributed_to_other_properties"] = other


def generator_protocol(ctx, rep):
    """spec/TokenStream.tla: the next/send/throw protocol between parser and lexer generator; theorems by TLC, then the
    calls of the real parsers on every token sequence <= 5 (6 thorough) of the reference grammar are validated against it
    (diagnostic binding, see harness/props/protocol.py)."""
    from .. import loaders
    from . import protocol
    protocol.model(ctx, rep)
    n = 6 if ctx.thorough else 5
    cache, jobs = {}, []
    for config in loaders.CONFIGS:
        d = loaders.GRAMMAR_CFG[config]
        if d not in cache:
            cache[d] = tokenlevel.emit_cases(ctx, rep, d, n)
        for c in cache[d]:
            if c["toks"]:
                jobs.append((config, tokenlevel.concretise(c["toks"], " ")))
    protocol.run_protocol(ctx, rep, jobs, "token sequences <= %d x 5 configurations" % n)
    from . import docs
    jobs = []
    for config in loaders.CONFIGS:
        for prof in ("layout", "missing"):
            for c in docs.emit(ctx, rep, config, prof, 2):
                jobs.append((config, loaders.cps(c["text"])))
    jobs = jobs[::8] if ctx.thorough else jobs[::25]      # (a trace is ~50 events; the recorded traces are held in memory)
    protocol.run_protocol(ctx, rep, jobs, "generated labels (nested blocks, collections, units, comments in gaps, missing values) x 5 configurations")


def _load_value(job):
    from .. import loaders
    config, text = job
    obs = loaders.load(config, text)
    if obs["kind"] == "hang":
        return "hang"
    if obs["kind"] == "raise" and not obs["documented"]:
        return "escape:" + obs["type"]
    return None


def values(ctx, rep, other):
    """value-shaped inputs: every date/time text of the C14 boundary product and every single-edit mutation of the
    classification lexicon, as the value of an assignment, in a sequence and in a set, under the 5 configurations"""
    import os
    from .. import tlc, loaders
    from ..common import pool_map
    from . import classify
    p = os.path.join(ctx.scratch, "dt6.cfg")
    with open(p, "w") as f:
        f.write("SPECIFICATION Spec\nCONSTANT Emit = TRUE\nCONSTANT Full = FALSE\nINVARIANT EmitCase\nCHECK_DEADLOCK FALSE\n")
    r = tlc.run("MC_DateTime", p, workers=16, scratch=ctx.scratch, xss="64m", timeout=3000)
    rep.tlc("MC_DateTime texts as loader input", r)
    words = {loaders.cps(c["text"]) for c in r.printed}
    for w in classify.LEXICON:
        words |= classify.mutations(w, "16-+.:#eETZ_a'")
    words = sorted(w for w in words if w and not any(ch in " \t\n\r\v\f" for ch in w))
    jobs = []
    for w in words:
        for config in loaders.CONFIGS:
            jobs.append((config, "a = %s\nEND" % w))
            jobs.append((config, "a = (1, %s) b = {%s}\n" % (w, w)))
    res = pool_map(_load_value, jobs, chunksize=500)
    for (config, text), out in zip(jobs, res):
        rep.case("values/" + config, (config, text), True)
        if out is None:
            rep.traces_validated += 1
        else:
            rep.fail({"config": config, "locus": "value-shaped-input", "features": loaders.text_features(text), "observed": out},
                     {"config": config, "text": text}, {})


def _bind(job):
    from .. import loaders
    inp = job
    text = " ".join({"W": "a", "V": "1", "=": "=", "E": "END", "X": "&"}[k] for k in inp)
    obs = loaders.load("OMNI", text)
    if obs["kind"] == "module":
        items = []
        for it in obs["tree"]["xs"]:
            v = it["xs"][0]
            items.append("empty" if v["t"] == "empty" else ("W" if v["t"] == "str" else "V"))
        return ("", items)
    if obs["kind"] == "raise":
        return (obs["type"], [])
    return ("hang", [])


def parser_loop_model(ctx, rep):
    """Design level: the implementation-shaped model of the parser's top-level loop (spec/ParserLoop.tla).  TLC proves
    termination and documented exceptions for every token input <= 5 on the repaired control flow and exhibits the
    non-progress cycle / StopIteration escape of the code before the repairs.  The model is then bound to the code: its
    outcome for every input is compared with the real OmniParser (reported as binding, never as a violation)."""
    from .. import tlc
    from ..common import pool_map
    r = tlc.run("ParserLoop", "ParserLoop_fixed.cfg", workers=4, scratch=ctx.scratch, timeout=900)
    rep.tlc("ParserLoop Version=fixed: Termination (liveness), OnlyDocumented, NothingSkipped for all inputs <= 5", r)
    if r.violation:
        raise RuntimeError("ParserLoop (fixed) violates a property: " + r.violation)
    r = tlc.run("ParserLoop", "ParserLoop_prefix.cfg", workers=4, scratch=ctx.scratch, timeout=900)
    rep.tlc("ParserLoop Version=prefix: TLC exhibits the pre-repair counterexamples", r)
    rep.coverage_extra["parser_loop_model_prefix_counterexample"] = r.violation or "none (unexpected)"
    r = tlc.run("ParserLoop", "ParserLoop_emit.cfg", workers=1, scratch=ctx.scratch, timeout=900)
    rep.tlc("ParserLoop Version=fixed: outcomes emitted for binding", r)
    outs = {tuple(c["inp"]): (c["exc"], [x["v"] for x in c["items"]] if c["exc"] == "" else []) for c in r.printed}
    inputs = sorted(outs)
    got = pool_map(_bind, inputs, chunksize=200)
    agree = sum(1 for k, g in zip(inputs, got) if outs[k] == g)
    drift = [{"tokens": list(k), "model": outs[k], "code": g} for k, g in zip(inputs, got) if outs[k] != g][:5]
    rep.coverage_extra["binding_parser_loop_model_vs_OmniParser"] = {"inputs": len(inputs), "agree": agree, "differences_sample": drift}
    if agree != len(inputs):
        print("NOTE: MODEL-DRIFT (diagnostic only): ParserLoop model and OmniParser differ on %d of %d token inputs" % (len(inputs) - agree, len(inputs)))
