"""C11 - copies are equal, independent and leave the original intact.

TLC explores spec/MC_Heap.tla (build a nested container, copy with one of the mechanisms,
mutate either side), checks the C11 invariants on the model and prints each behaviour with the
expected tree projection of both roots after every step.  Each behaviour is replayed on real
containers.  A second, seeded family of behaviours comes from TLC's simulator (deeper heaps).
"""
import json, os
from .. import tlc
from ..common import pool_map
from .. import heapops

_G = {}


def _replay(case):
    tree, mech, steps = case["tree"], case["mech"], case["steps"]
    m = heapops.build(tree, _G["classes"])
    cp = None
    for n, st in enumerate(steps):
        side, path, o = st["side"], st["path"], st["o"]
        locus = "%s/%s/depth%d" % (o["op"], side, len(path))
        try:
            if o["op"] == "copy":
                cp = heapops.do_copy(m, mech)
            else:
                heapops.mutate(heapops.resolve(m if side == "orig" else cp, path), o)
        except Exception as e:
            return ("fail", {"config": mech, "locus": locus, "observed": "raises:" + type(e).__name__},
                    {"tree": tree, "mech": mech, "steps": [s["o"] | {"side": s["side"], "path": s["path"]} for s in steps[:n + 1]]},
                    {"exception": repr(e)[:200]})
        po, pc = heapops.project(m), heapops.project(cp)
        obs = None
        if o["op"] == "copy":
            if po != st["orig"]:
                obs = "original-changed"
            elif pc != st["copy"]:
                obs = "copy-unequal"
        else:
            other_ok = (po == st["orig"]) if side == "copy" else (pc == st["copy"])
            mine_ok = (pc == st["copy"]) if side == "copy" else (po == st["orig"])
            if not other_ok:
                obs = "shows-through"
            elif not mine_ok:
                obs = "mutation-wrong"
        if obs:
            return ("fail", {"config": mech, "locus": locus, "observed": obs},
                    {"tree": tree, "mech": mech, "steps": [s["o"] | {"side": s["side"], "path": s["path"]} for s in steps[:n + 1]]},
                    {"orig": po, "copy": pc, "expected_orig": st["orig"], "expected_copy": st["copy"]})
    return ("ok",)


ALL_OPS = ("append", "setitem", "delitem", "pop", "insert", "clear")


def cfg_text(objs, items, mut, roots, mechs, emit, atoms=("x",), ops=ALL_OPS, children=("PVLGroup", "PVLObject")):
    q = lambda xs: "{" + ", ".join('"%s"' % x for x in xs) + "}"
    return ("SPECIFICATION Spec\nCONSTANT MaxObjs = %d\nCONSTANT MaxItems = %d\nCONSTANT MaxMut = %d\n"
            "CONSTANT RootClasses = %s\nCONSTANT MechSet = %s\nCONSTANT Emit = %s\nCONSTANT AtomVals = %s\nCONSTANT MutNames = %s\nCONSTANT ChildClasses = %s\n"
            "INVARIANT CopyEqual\nINVARIANT OrigIntact\nINVARIANT ClassesKept\nINVARIANT EmitCase\n"
            "PROPERTY Independent\nCHECK_DEADLOCK FALSE\n" %
            (objs, items, mut, q(roots), q(mechs), "TRUE" if emit else "FALSE", q(atoms), q(ops), q(children)))


ALL_ROOTS = ["PVLModule", "PVLGroup", "PVLObject", "OrderedMultiDict"]
ALL_MECHS = ["copy_method", "copy_copy", "deepcopy"] + ["pickle%d" % i for i in range(6)]


def run(ctx, rep):
    from ..common import import_pvl
    import_pvl()
    _G["classes"] = heapops.cls_by_name()
    rep.rule = ("every behaviour of spec/MC_Heap.tla within the bounds (build nested container, Copy(mech), "
                "Mutate either side) replayed on real containers, tree projection of both roots compared after "
                "every step; distinct = distinct (tree, mechanism, mutation sequence); non-trivial = tree has a "
                "nested container or a duplicated key")
    some = ["copy_method", "copy_copy", "deepcopy", "pickle2"]
    runs = [("all classes x all mechanisms, <=2 objects x 1 item, 1 mutation",
             cfg_text(2, 1, 1, ALL_ROOTS, ALL_MECHS, True, ("x", "y"))),
            ("module root x all mechanisms, <=2 objects x <=2 items, 1 mutation",
             cfg_text(2, 2, 1, ["PVLModule"], ALL_MECHS, True)),
            ("group root, 2 mutations on either side",
             cfg_text(2, 2, 2, ["PVLGroup"], ["copy_copy", "deepcopy"], True, ops=("append", "setitem", "pop", "clear"))),
            ("module root, 3 objects (two nesting levels), 1 mutation",
             cfg_text(3, 2, 1, ["PVLModule"], some, True, ops=("setitem", "pop"))),
            ("leaves a loader produces (missing-value placeholder, Quantity, datetime, Decimal, int, frozenset) x all mechanisms",
             cfg_text(1, 2, 1, ["PVLModule"], ALL_MECHS, True, ("x", "@empty", "@qty", "@qtydec", "@dt", "@dec", "@int", "@set"), ops=("append", "pop"))),
            ("the same leaves inside a nested block",
             cfg_text(2, 1, 1, ["PVLModule"], ALL_MECHS, True, ("x", "@empty", "@qty", "@qtydec", "@dt", "@dec", "@int", "@set"), ops=("append", "pop"))),
            ("containers of the root classes nested as values (a module inside a module, a bare OrderedMultiDict inside a group)",
             cfg_text(3, 1, 1, ["PVLModule", "OrderedMultiDict"], ALL_MECHS, True, ("x",), ops=("append", "pop"),
                      children=("PVLModule", "OrderedMultiDict", "PVLGroup"))),
            ("mutable values below the top level: lists (loaded sequences) and Quantities holding a list, in modules and groups",
             cfg_text(2, 2, 1, ["PVLModule"], ALL_MECHS, True, ("x", "@empty"), ops=("append", "pop", "clear"), children=("list", "qtylist"))),
            ("lists and list-valued Quantities inside a group",
             cfg_text(3, 1, 1, ["PVLModule"], ALL_MECHS, True, ("x",), ops=("append", "pop", "clear"), children=("PVLGroup", "list", "qtylist")))]
    if ctx.thorough:
        runs.append(("all classes x all mechanisms, <=2 objects x <=2 items", cfg_text(2, 2, 1, ALL_ROOTS, ALL_MECHS, True, ("x", "y"))))
        runs.append(("3 objects, all ops", cfg_text(3, 2, 1, ["PVLObject"], ALL_MECHS, True)))
        runs.append(("2 mutations, all ops", cfg_text(2, 2, 2, ["OrderedMultiDict"], some + ["pickle0", "pickle5"], True)))
    nseen = 0
    sample = None
    for name, text in runs:
        p = os.path.join(ctx.scratch, "heap.cfg")
        with open(p, "w") as f:
            f.write(text)
        r = tlc.run("MC_Heap", p, workers=1, scratch=ctx.scratch, timeout=7000)
        if r.violation:
            raise RuntimeError("Heap model violates a C11 invariant (spec error): %s\n%s" % (r.violation, r.raw[-3000:]))
        rep.tlc("MC_Heap: " + name, r)
        rep.exhaustive[name] = True
        cases = r.printed
        r.printed = None
        r.raw = ""
        res = pool_map(_replay, cases)
        for c, out in zip(cases, res):
            nontriv = any(i[1]["cls"] != "atom" or i[1]["s"].startswith("@") for i in c["tree"]["items"]) or \
                len({i[0] for i in c["tree"]["items"]}) < len(c["tree"]["items"])
            rep.case("replay", json.dumps([c["tree"], c["mech"], [(s["side"], s["path"], s["o"]) for s in c["steps"]]]), nontriv)
            if out[0] == "fail":
                rep.fail(out[1], out[2], out[3])
            else:
                rep.traces_validated += 1
        big = [c for c in cases if len(c["tree"]["items"]) == 2 and len(c["steps"]) > 1]
        if big and sample is None:
            c = big[len(big) // 2]
            sample = {"tree": c["tree"], "mech": c["mech"],
                      "steps": [{"side": s["side"], "path": s["path"], "o": s["o"]} for s in c["steps"]]}
        nseen += len(cases)
        del cases, res
    if sample:
        rep.sample(sample)
    # model-level check without emission at a larger bound (all invariants, 16 workers)
    p = os.path.join(ctx.scratch, "heapmc.cfg")
    with open(p, "w") as f:
        f.write(cfg_text(3, 2, 1, ALL_ROOTS, ALL_MECHS, False) if ctx.thorough
                else cfg_text(3, 2, 1, ["PVLModule", "PVLGroup"], ["copy_method", "copy_copy", "deepcopy", "pickle2"], False))
    r = tlc.run("MC_Heap", p, workers=16, scratch=ctx.scratch, coverage=not ctx.thorough, timeout=3000)
    if r.violation:
        raise RuntimeError("Heap model violates a C11 invariant (spec error): " + r.violation)
    rep.tlc("MC_Heap: invariants CopyEqual/OrigIntact/ClassesKept/Independent on the model", r)
