"""C16 - parser, decoder and encoder instances carry no state between calls.

TLC enumerates every call history <= D over the input pool (spec/Session.tla) and checks the
implementation-shaped `errors` list against the reference on the model.  The harness issues
each history to one long-lived instance of every parser / encoder / decoder class (and to the
module-level instances of the two command-line front ends), runs the same input on a fresh
instance, and TLC (spec/Trace_Session.tla) judges every call.
"""
import json, os, warnings, datetime, signal
from .. import tlc
from ..common import pool_map, chunks
from ..projection import project, digest

_G = {}

PARSE_INPUTS = [
    "a = 1\nb = 2\nq = 5 <ms>\nz = 0 <m>\nEND\n",
    "a =\nb = 2\nEND\n",
    "a = 1\nb =\nc =\nEND\n",
    "a =\nb = (1, 2\nc = 3\nEND\n",
    "= 5\n",
    "a = x-\n  y\nb =\nEND\n",
    "a = \x01\nb = 2\n",
    "GROUP = g\n  a =\nEND_GROUP\nq = 'x'\nEND\n",
    "GROUP = g\n  OBJECT = o\n    a = 1\n  END_OBJECT = wrong_name\nEND_GROUP\nEND\n",
    "OBJECT = h\n  GROUP = k\n    a = 1\n",
    "a = 1 # note\nb = +x\nq = 5.0 <ms>\nz = -0.0 <m>\nEND\n",      # equal to the quantities of input 1 as numbers, not as values
    "x = */\ny = a*/\n",
]
INPUT_CLASS = {1: "clean", 2: "missing-values", 3: "missing-values", 4: "fails-after-repair", 5: "fails-at-once",
               6: "dash-continuation", 7: "disallowed-char", 8: "missing-in-block", 9: "fails-inside-block", 10: "truncated-inside-block",
               11: "hash-comment", 12: "comment-end-in-word"}
DECODE_INPUTS = ["1", "'abc'", "2001-01-01", "a b", "16#FF#", "12:00:60", "NULL", "1.5e3", "23:59:60", "2001-366", "*/", "a*/"]


def _new_module():
    import pvl.new
    return pvl.new.loads("GROUP = g\n x = 1\nEND_GROUP\nOBJECT = o\n y = 2\nEND_OBJECT\nEND\n")


def encode_inputs():
    import pvl
    from pvl.collections import PVLModule, PVLGroup, PVLObject, Quantity
    return [
        PVLModule(a=1, b="two"),
        PVLModule(a=object()),
        _new_module(),                              # a module of the pvl.new container classes (its groups are of another class)
        PVLModule(q=Quantity(5, "m"), t=datetime.datetime(2001, 1, 1, 12, 0, 0)),
        PVLModule([("o", PVLObject([("g", PVLGroup(y={1, 2}))])), ("s", ["a", "b c"])]),
        PVLModule(f=float("inf")),
        PVLModule([("g", PVLGroup(x=1)), ("g", PVLGroup(x=2)), ("z", "x" * 100)]),
        PVLModule(k={1.5, "a b"}),
        PVLModule(a="caf\u0101"),                  # a character no dialect's character set has
        PVLModule([("b", "x\u0101y"), ("c", 2)]),
        # two times that are the same instant (equal, same hash) but must be written differently
        PVLModule([("o", PVLObject([("h", PVLObject(a=True))])), ("t", datetime.time(12, 0, 0, tzinfo=datetime.timezone.utc)),
                   ("d", datetime.datetime(2001, 1, 1, 12, 0, 0, tzinfo=datetime.timezone.utc))]),
        PVLModule([("g", PVLGroup([("s", "12:00-01"), ("n", None)])),
                   ("t", datetime.time(13, 0, 0, tzinfo=datetime.timezone(datetime.timedelta(hours=1)))),
                   ("d", datetime.datetime(2001, 1, 1, 13, 0, 0, tzinfo=datetime.timezone(datetime.timedelta(hours=1))))]),
    ]


NENC = 12
NIN = 12


def kinds():
    """name -> (make_fresh, get_long_lived or None, call)"""
    import pvl, pvl.parser as P, pvl.grammar as G, pvl.decoder as D, pvl.encoder as E
    import pvl.pvl_validate as V, pvl.pvl_translate as T
    ks = {}

    def parse_call(inst, x):
        m = inst.parse(PARSE_INPUTS[x])
        _G["last_raw"] = m
        return {"module": project(m), "errors": list(getattr(m, "errors", [])), "inst_errors": "n/a"}

    def enc_call(inst, x):
        return {"text": inst.encode(_G["encode_inputs"]()[x])}

    def dec_call(inst, x):
        return {"value": project(inst.decode(DECODE_INPUTS[x]))}

    # through the module-level functions with a caller-supplied instance; some calls also name a grammar / decoder or
    # formatting options, which must not stick to the instance
    def loads_call(inst, x):
        kw = {}
        if x % 3 == 1:
            kw["grammar"] = G.PVLGrammar()
        elif x % 3 == 2:
            kw["decoder"] = D.PVLDecoder(G.PVLGrammar())
        m = pvl.loads(PARSE_INPUTS[x], parser=inst, **kw)
        _G["last_raw"] = m
        return {"module": project(m), "errors": list(getattr(m, "errors", []))}

    def dumps_call(inst, x):
        kw = {}
        if x % 4 == 1:
            kw["grammar"] = G.ISISGrammar()
        elif x % 4 == 2:
            kw["decoder"] = D.PVLDecoder(G.PVLGrammar())
        elif x % 4 == 3:
            kw.update(indent=6, width=40)
        return {"text": pvl.dumps(_G["encode_inputs"]()[x], encoder=inst, **kw)}
    ks["pvl.loads(parser=OmniParser, [grammar=|decoder=])"] = (lambda: P.OmniParser(), None, loads_call, len(PARSE_INPUTS))
    ks["pvl.dumps(encoder=PVLEncoder, [grammar=|decoder=|indent=,width=])"] = (lambda: E.PVLEncoder(), None, dumps_call, NENC)
    ks["pvl.dumps(encoder=PDSLabelEncoder, [grammar=|decoder=|indent=,width=])"] = (lambda: E.PDSLabelEncoder(), None, dumps_call, NENC)
    ks["PVLParser"] = (lambda: P.PVLParser(grammar=G.PVLGrammar(), decoder=D.PVLDecoder(G.PVLGrammar())), None, parse_call, len(PARSE_INPUTS))
    ks["ODLParser"] = (lambda: P.ODLParser(grammar=G.ODLGrammar(), decoder=D.ODLDecoder(G.ODLGrammar())), None, parse_call, len(PARSE_INPUTS))
    ks["ODLParser/PDS3"] = (lambda: P.ODLParser(grammar=G.PDSGrammar(), decoder=D.PDSLabelDecoder(G.PDSGrammar())), None, parse_call, len(PARSE_INPUTS))
    ks["OmniParser"] = (lambda: P.OmniParser(), None, parse_call, len(PARSE_INPUTS))
    ks["OmniParser/ISIS"] = (lambda: P.OmniParser(grammar=G.ISISGrammar(), decoder=D.OmniDecoder(G.ISISGrammar())), None, parse_call, len(PARSE_INPUTS))
    for name, row in V.dialects.items():
        p = row["parser"]
        ks["pvl_validate.dialects[%s].parser" % name] = (
            (lambda p=p: type(p)(grammar=type(p.grammar)(), decoder=type(p.decoder)(type(p.grammar)()))),
            (lambda p=p: p), parse_call, len(PARSE_INPUTS))
        e = row["encoder"]
        ks["pvl_validate.dialects[%s].encoder" % name] = (
            (lambda e=e: type(e)(grammar=type(e.grammar)(), decoder=type(e.decoder)(type(e.grammar)()))),
            (lambda e=e: e), enc_call, NENC)
    for name, cls in (("PVLEncoder", E.PVLEncoder), ("ODLEncoder", E.ODLEncoder),
                      ("PDSLabelEncoder", E.PDSLabelEncoder), ("ISISEncoder", E.ISISEncoder)):
        ks[name] = ((lambda cls=cls: cls()), None, enc_call, NENC)
    for name, w in T.formats.items():
        if hasattr(w, "encoder"):
            e = w.encoder
            ks["pvl_translate.formats[%s].encoder" % name] = ((lambda e=e: type(e)()), (lambda e=e: e), enc_call, NENC)
    for name, mk in (("PVLDecoder", lambda: D.PVLDecoder()), ("ODLDecoder", lambda: D.ODLDecoder()),
                     ("PDSLabelDecoder", lambda: D.PDSLabelDecoder()), ("OmniDecoder", lambda: D.OmniDecoder())):
        ks[name] = (mk, None, dec_call, len(DECODE_INPUTS))
    return ks


class _Timeout(Exception):
    pass


def _alarm(*a):
    raise _Timeout()


def outcome(call, inst, x):
    from .. import loaders
    try:
        with loaders.watchdog(10), warnings.catch_warnings():
            warnings.simplefilter("ignore")
            r = call(inst, x)
        return digest({"ok": r}), r
    except loaders.Hang:
        return "hang", "hang"
    except Exception as e:
        import re
        d = {"exc": type(e).__name__, "msg": re.sub(r"0x[0-9a-fA-F]+", "0x?", str(e))[:300],
             "pos": [getattr(e, a, None) for a in ("pos", "lineno", "colno")]}
        return digest(d), d


def _session(job):
    kind, hist = job
    fresh, shared, call, n = _G["kinds"][kind]
    inst = shared() if shared else fresh()
    evs = []
    detail = []
    kept = []            # the objects returned by earlier calls on the long-lived instance, with their digest at the time
    for x in hist:
        x0 = x - 1
        _G["last_raw"] = None
        reused, rd = outcome(call, inst, x0)
        raw = _G.get("last_raw")
        fr, fd = outcome(call, fresh(), x0)
        # a result handed out earlier must not change when the instance is used again (aliasing of internal lists)
        for old_digest, old_obj in kept:
            if live_digest(old_obj) != old_digest:
                reused = "earlier-result-changed:" + reused
                rd = {"earlier_result_now": repr(live_view(old_obj))[:300], "this_call": rd}
                break
        evs.append({"input": x, "reused": reused, "fresh": fr})
        detail.append((rd, fd))
        if raw is not None:
            kept.append((live_digest(raw), raw))
    return {"ev": evs}, detail


def live_view(obj):
    """what a caller still holding an earlier result can see of it"""
    errs = getattr(obj, "errors", None)
    return {"module": project(obj) if not isinstance(obj, str) else obj, "errors": list(errs) if errs is not None else None}


def live_digest(obj):
    return digest(live_view(obj))


def run(ctx, rep):
    from ..common import import_pvl
    import_pvl()
    _G["kinds"] = kinds()
    _G["encode_inputs"] = encode_inputs
    D = 4 if ctx.thorough else 3
    rep.rule = ("every call history of length %d over a 12-input pool (clean, missing values, failing part-way, "
                "failing at once, dash continuation, disallowed character, nested block ...) enumerated by TLC from "
                "spec/Session.tla, issued to one long-lived instance of each of %d parser/encoder/decoder kinds "
                "(classes and the CLI module-level instances) next to a fresh instance; judged by TLC with "
                "spec/Trace_Session.tla. distinct = (kind, history); non-trivial = history contains a failing or "
                "repaired input before its last call" % (D, len(_G["kinds"])))
    for name, cfg, expect in (("Reset=FALSE (errors never cleared: TLC exhibits the leak)", "MC_Session_FALSE.cfg", True),
                              ("Reset=TRUE (parse() clears errors: NoLeak holds)", "MC_Session_TRUE.cfg", False)):
        r = tlc.run("Session", cfg, workers=1, scratch=ctx.scratch)
        rep.tlc("Session impl-shaped " + name, r)
        if bool(r.violation) != expect:
            raise RuntimeError("Session model check %s: unexpected result %r" % (name, r.violation))
    p = os.path.join(ctx.scratch, "sess.cfg")
    with open(p, "w") as f:
        f.write("SPECIFICATION Spec\nCONSTANT NInputs = %d\nCONSTANT D = %d\nCONSTANT Reset = TRUE\nCONSTANT Emit = TRUE\n"
                "INVARIANT NoLeak\nINVARIANT EmitHist\nCHECK_DEADLOCK FALSE\n" % (NIN, D))
    r = tlc.run("Session", p, workers=1, scratch=ctx.scratch)
    rep.tlc("Session: all call histories of length %d over %d inputs" % (D, NIN), r)
    hists = [x["h"] for x in r.printed]
    if len(hists) != NIN ** D:
        raise RuntimeError("expected %d histories, got %d" % (10 ** D, len(hists)))
    rep.exhaustive["histories of length %d x %d instance kinds" % (D, len(_G["kinds"]))] = True
    # long-lived module-level instances are shared by all histories in one process: run those serially per kind,
    # in the order TLC emitted them, so that the instance really accumulates a long past
    jobs = [(k, h) for k in _G["kinds"] for h in hists]
    out = pool_map(_session, jobs, chunksize=64)
    sessions = [o[0] for o in out]
    batches = list(chunks(list(zip(jobs, out)), 4000))
    from concurrent.futures import ThreadPoolExecutor

    def one(args):
        bi, b = args
        path = os.path.join(ctx.scratch, "sess%d.json" % bi)
        with open(path, "w") as f:
            json.dump([o[0] for _, o in b], f)
        rr = tlc.run("Trace_Session", "Trace_Session.cfg", workers=1, scratch=ctx.scratch, env={"TRACE_FILE": path})
        os.unlink(path)
        return rr
    with ThreadPoolExecutor(8) as ex:
        results = list(ex.map(one, enumerate(batches)))
    for b, rr in zip(batches, results):
        rep.tlc("Trace_Session batch", rr)
        verdicts = {v["tid"]: v for v in rr.printed if "tid" in v}
        if len(verdicts) != len(b):
            raise RuntimeError("Trace_Session returned %d verdicts for %d traces\n%s" % (len(verdicts), len(b), rr.raw[-2000:]))
        for i, ((kind, hist), (sess, detail)) in enumerate(b, 1):
            v = verdicts[i]
            rep.case("session", (kind, tuple(hist)), any(x in (2, 3, 4, 5, 6, 7) for x in hist[:-1]))
            if not v["fails"]:
                rep.traces_validated += 1
            for fl in v["fails"][:1]:
                step = fl["l"] - 1
                rep.fail({"config": kind, "locus": "after:" + ("+".join(sorted({INPUT_CLASS[x] for x in hist[:step]} - {"clean"})) or "clean-only"),
                          "observed": fl["clause"]},
                         {"kind": kind, "history": hist, "step": step},
                         {"reused": detail[step][0], "fresh": detail[step][1]})
    rep.sample({"kind": "OmniParser", "history": hists[77], "inputs": [PARSE_INPUTS[i - 1] for i in hists[77]]})
