"""C17 - value classification is total, exclusive and shared by reader and writer."""
from . import classify


def run(ctx, rep):
    maxlen = 5 if ctx.thorough else 4
    rep.rule = ("every token text of length 1..%d over the 13-character value alphabet {1 6 - + . : # e T Z _ a '} "
                "(enumerated by TLC, spec/MC_Class.tla) plus every single-edit mutation of a 110-word lexicon, x 5 "
                "grammar/decoder pairs: Token predicates, decode_simple_value outcome and the encoder's quoting decision are "
                "recorded and judged by TLC (spec/Trace_Class.tla: total, exclusive, type, number-as-name, "
                "keyword-as-unquoted, unquoted-decodes-to-itself, encoder clauses). distinct = (dialect, text); "
                "non-trivial = the reference class is not 'not a value'" % maxlen)
    other = {}
    for prop, sig, case, detail in classify.run_classes(ctx, rep, maxlen):
        if prop == "C17":
            rep.fail(sig, case, detail)
        else:
            other[prop] = other.get(prop, 0) + 1
    rep.coverage_extra["failures_attributed_to_other_properties"] = other
