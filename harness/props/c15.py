"""C15 - strict dialects enforce their character set; the default accepts all."""
import json, os
from .. import tlc, loaders
from ..common import pool_map, chunks

QUICK_CPS = [0, 1, 7, 8, 9, 11, 12, 13, 14, 26, 27, 28, 31, 32, 65, 126, 127, 128, 133, 159, 160, 173, 233, 255, 256, 0x200B, 0x2028, 0x2029, 0x3000, 0xD800,
             0xFEFF, 0xFFFE, 0xFFFD, 0xFFFF, 0x10000, 0x10FFFF]     # incl. byte order mark, zero-width and other Unicode spaces, soft hyphen


def _ranges(d):
    import pvl.grammar as G
    g = {"PVL": G.PVLGrammar, "ODL": G.ODLGrammar, "PDS3": G.PDSGrammar, "ISIS": G.ISISGrammar, "OMNI": G.OmniGrammar}[d]()
    out, lo, cur = [], 0, None
    for cp in range(0x110000):
        try:
            a = bool(g.char_allowed(chr(cp)))
        except Exception:
            a = False
        if cur is None:
            cur = a
        elif a != cur:
            out.append({"ev": "range", "d": d, "lo": lo, "hi": cp - 1, "allowed": cur})
            lo, cur = cp, a
    out.append({"ev": "range", "d": d, "lo": lo, "hi": 0x10FFFF, "allowed": cur})
    return out


def _via_parser(d):
    """the tolerant parser with a strict grammar: what pvl.loads(text, grammar=G()) - or, for "dec:<d>", what
    pvl.loads(text, decoder=D()) - builds"""
    import pvl.parser as P, pvl.grammar as G, pvl.decoder as D
    if d.startswith("dec:"):
        return P.OmniParser(decoder={"PVL": D.PVLDecoder, "ODL": D.ODLDecoder, "PDS3": D.PDSLabelDecoder}[d[4:]]())
    return P.OmniParser(grammar={"PVL": G.PVLGrammar, "ODL": G.ODLGrammar, "PDS3": G.PDSGrammar}[d]())


def _loads_decoder_only(d, text):
    """pvl.loads(text, decoder=D()) itself: the plumbing in pvl/__init__.py decides which grammar the text is lexed with"""
    import pvl, warnings, pvl.decoder as D
    from ..projection import project
    dec = {"PVL": D.PVLDecoder, "ODL": D.ODLDecoder, "PDS3": D.PDSLabelDecoder}[d]()
    try:
        with loaders.watchdog(10), warnings.catch_warnings():
            warnings.simplefilter("ignore")
            m = pvl.loads(text, decoder=dec)
        return {"kind": "module", "tree": project(m), "errors": list(getattr(m, "errors", []))}
    except loaders.Hang:
        return {"kind": "hang"}
    except Exception as e:
        return {"kind": "raise", "type": type(e).__name__, "documented": type(e).__name__ in ("LexerError", "ParseError"),
                "pos": getattr(e, "pos", None), "lineno": getattr(e, "lineno", None), "colno": getattr(e, "colno", None), "msg": str(e)[:200]}


def _load(job):
    d, text = job[0], job[1]
    via = job[2] if len(job) > 2 else None
    if via and via.startswith("dec:"):
        obs = _loads_decoder_only(via[4:], text)
    else:
        obs = loaders.load(d, text, parser=_via_parser(via), parser_factory=lambda: _via_parser(via)) if via else loaders.load(d, text)
    ev = {"ev": "load", "d": d, "text": [ord(c) for c in text], "kind": obs["kind"], "type": obs.get("type", ""),
          "pos": -1, "lineno": -1, "colno": -1}
    if via:
        ev["via"] = ("loads(decoder=%sDecoder())" % via[4:]) if via.startswith("dec:") else ("loads(grammar=%sGrammar())" % via)
    for k in ("pos", "lineno", "colno"):
        if isinstance(obs.get(k), int):
            ev[k] = obs[k]
    return ev, obs


def run(ctx, rep):
    from ..common import import_pvl
    import_pvl()
    rep.rule = ("(1) char_allowed() of the 5 grammars evaluated on all 1 114 112 code points, logged as maximal ranges, every code "
                "point of every range checked by TLC against Allowed(d, c) (spec/PvlValues.tla); (2) TLC builds texts with a code "
                "point at 17 kinds of position (spec/MC_Chars.tla) and gives the reference outcome; real loads are judged by "
                "spec/Trace_Chars.tla (LexerError iff disallowed before END, pos/lineno/colno consistent). distinct = (dialect, "
                "range) or (dialect, template, code point); non-trivial = code point outside printable ASCII")
    # (1) tables
    ranges = []
    for r in pool_map(_ranges, loaders.CONFIGS, procs=5) if False else [_ranges(d) for d in loaders.CONFIGS]:
        ranges += r
    # (2) positions
    cps = sorted(set(QUICK_CPS) | (set(range(0, 0x180)) if ctx.thorough else set()) |
                 {ctx.rng.randrange(0x110000) for _ in range(4096 if ctx.thorough else 64)})
    p = os.path.join(ctx.scratch, "chars.cfg")
    with open(p, "w") as f:
        f.write("SPECIFICATION Spec\nCONSTANT CodePoints = {%s}\nCONSTANT Emit = TRUE\nINVARIANT OmniAcceptsAll\nINVARIANT AsciiIffOdl\n"
                "INVARIANT PvlLatin1\nINVARIANT IsisAsPvl\nINVARIANT BadCharRejected\nINVARIANT AfterEndIgnored\nINVARIANT EmitCase\n"
                "CHECK_DEADLOCK FALSE\n" % ", ".join(map(str, cps)))
    r = tlc.run("MC_Chars", p, workers=16, scratch=ctx.scratch, xss="64m", timeout=3000)
    if r.violation:
        raise RuntimeError("reference violates a C15 theorem on the model: " + r.violation + r.raw[-2000:])
    rep.tlc("MC_Chars: %d code points x 11 positions, table theorems and reference outcomes" % len(cps), r)
    rep.exhaustive["code points 0..0x10FFFF x 5 grammars (table)"] = True
    jobs = []
    for c in r.printed:
        text = loaders.cps(c["text"])
        for d in loaders.CONFIGS:
            jobs.append((d, text))
        # the strict grammars under the tolerant parser (pvl.loads(text, grammar=G())): the character set is the grammar's
        for d in ("PVL", "ODL", "PDS3"):
            jobs.append((d, text, d))
            jobs.append((d, text, "dec:" + d))      # only a decoder given: the text is lexed with that decoder's grammar
    # ... also behind a repaired missing value, at top level and inside a block: the ISIS configuration, and the PVL grammar
    # under the tolerant parser, for which the reference dialect is ISIS (tolerant grammar, PVL character set)
    for cp in cps:
        for text in ("GROUP = g\n a = \n b = \"x%sy\"\nEND_GROUP = g\nEND\n" % chr(cp), "a =\nb = (1, %sz)\nEND\n" % chr(cp),
                     "OBJECT = o\n a =\n GROUP = g\n  b =\n  c = %s\n END_GROUP\nEND_OBJECT\nEND\n" % chr(cp)):
            jobs.append(("ISIS", text))
            jobs.append(("ISIS", text, "PVL"))
    loads = pool_map(_load, jobs, chunksize=200)
    events = ranges + [e for e, _ in loads]
    details = [None] * len(ranges) + [o for _, o in loads]
    batches = list(chunks(list(zip(events, details)), 4000))
    from concurrent.futures import ThreadPoolExecutor

    def one(args):
        bi, b = args
        path = os.path.join(ctx.scratch, "chars%d.json" % bi)
        with open(path, "w") as f:
            json.dump([e for e, _ in b], f)
        rr = tlc.run("Trace_Chars", "Trace_Chars.cfg", workers=4, scratch=ctx.scratch, env={"TRACE_FILE": path}, xss="64m", timeout=3000)
        os.unlink(path)
        return rr
    with ThreadPoolExecutor(4) as ex:
        results = list(ex.map(one, enumerate(batches)))
    npts = 0
    for b, rr in zip(batches, results):
        rep.tlc("Trace_Chars batch", rr)
        verdicts = {v["i"]: v for v in rr.printed if "i" in v}
        if len(verdicts) != len(b):
            raise RuntimeError("Trace_Chars returned %d verdicts for %d events\n%s" % (len(verdicts), len(b), rr.raw[-1500:]))
        for i, (ev, det) in enumerate(b, 1):
            v = verdicts[i]
            if ev["ev"] == "range":
                npts += ev["hi"] - ev["lo"] + 1
                rep.case("table/" + ev["d"], (ev["d"], ev["lo"], ev["hi"]), True)
                case = {"d": ev["d"], "range": [ev["lo"], ev["hi"]], "char_allowed": ev["allowed"]}
                locus = "table"
            else:
                text = loaders.cps(ev["text"])
                rep.case("position/" + ev.get("via", ev["d"]), (ev.get("via", ev["d"]), text), any(ord(ch) > 126 or ord(ch) < 32 and ch not in "\n\r" for ch in text))
                case = {"config": ev["d"], "text": text}
                locus = "position"
            fails = list(v["fails"])
            if ev.get("via"):         # judged only on "a disallowed character is a LexerError at that character"
                fails = [c for c in fails if c in ("not-LexerError", "pos-range", "pos-near-character", "lineno", "colno")]
                case["config"] = ev["via"]
            elif ev["ev"] == "load" and not fails and "o" in v:
                ref = loaders.ref_outcome(v["o"])
                if ref["verdict"] == "accept" and det["kind"] == "module" and loaders.canon(det["tree"]) != loaders.canon(ref["tree"]):
                    fails.append("characters-not-returned-unchanged")
            if not fails:
                rep.traces_validated += 1
            for clause in fails[:1]:
                rep.fail({"config": ev.get("via", ev["d"]), "locus": locus, "observed": clause}, case, {"event": {k: ev[k] for k in ev if k != "text"}, "observed": det})
    rep.coverage_extra["code_points_checked_against_table"] = npts
    rep.sample({"range_event": ranges[1], "position_case": {"text": loaders.cps(r.printed[7]["text"]), "cp": r.printed[7]["cp"]}})
