"""Lexer-generator protocol: the calls the real parser makes on the real token generator
(next / send / throw), recorded by a proxy handed in as `lexer_fn` (no hook in the library), are
validated by TLC against spec/TokenStream.tla (judge: spec/Trace_TokenStream.tla).

The specification's theorems (NetStream, OnlyLexerErrors under the strict client discipline; the
lost token without it) are model-checked first.  Trace verdicts are reported as coverage and as
diagnostic notes only: a client that breaks the discipline does not by itself violate a listed
property (its consequences - a lost statement, an ill-formed text accepted, a raw ValueError - are
judged by the outcome comparisons of C03/C05/C06/C08)."""
import json, os
from .. import tlc, loaders
from ..common import pool_map, chunks

STOP, LEXERR, TYPEERR, RAW = -1, -2, -3, -4


class Proxy:
    """Wraps the generator; numbers fresh tokens in the order of delivery."""

    def __init__(self, gen, rec):
        self.g, self.rec, self.ids, self.keep = gen, rec, {}, []

    def _tid(self, t, fresh):
        k = id(t)
        if k not in self.ids:
            if not fresh:
                return 0 - 9                      # a token object the generator never delivered
            self.keep.append(t)
            self.ids[k] = len(self.ids) + 1
        return self.ids[k]

    def _call(self, op, a, fn, fresh):
        try:
            r = fn()
        except StopIteration:
            self.rec.append({"op": op, "a": a, "r": STOP})
            raise
        except BaseException as e:
            n = type(e).__name__
            self.rec.append({"op": op, "a": a, "r": LEXERR if n == "LexerError" else TYPEERR if n == "TypeError" else RAW})
            raise
        self.rec.append({"op": op, "a": a, "r": 0 if r is None else self._tid(r, fresh)})
        return r

    def __iter__(self):
        return self

    def __next__(self):
        return self._call("next", 0, lambda: next(self.g), True)

    def send(self, t):
        return self._call("send", self._tid(t, False), lambda: self.g.send(t), False)

    def throw(self, *a):
        return self._call("throw", 0, lambda: self.g.throw(*a), False)

    def close(self):
        return self.g.close()


def record(config, text):
    """One guarded load with a recording lexer; returns the trace record for the judge (or None on a hang)."""
    import pvl, pvl.lexer as L, pvl.parser as P
    sessions = []

    def lexer_fn(s, g=None, d=None):
        rec = []
        sessions.append((s, rec))
        return Proxy(L.lexer(s, g=g, d=d), rec)
    parser = loaders.make_parser(config, lexer_fn=lexer_fn) if config != "OMNI" else P.OmniParser(lexer_fn=lexer_fn)
    obs = loaders._load(config, text, 10.0, parser)
    if obs["kind"] == "hang" or not sessions:
        return None
    s, rec = sessions[0]                          # the parse proper (later sessions are position look-ups)
    kinds, ending = [], "stop"
    try:
        for t in L.lexer(s, g=parser.grammar, d=parser.decoder):
            kinds.append(1 if t.is_end_statement() else 2 if (t.is_WSC() or t.is_delimiter()) else 0)
    except Exception:
        ending = "error"
    return {"n": len(kinds), "ending": ending, "kind": kinds, "ev": rec,
            "result": "module" if obs["kind"] == "module" else "raise", "config": config, "text": text}


def _rec(job):
    return record(*job)


def model(ctx, rep):
    for cfg, what in (("TokenStream_strict.cfg", "NetStream, OnlyLexerErrors, SendReturnsNone for every disciplined client"),
                      ("TokenStream_strict_err.cfg", "same, lexer ends with its own LexerError")):
        r = tlc.run("TokenStream", cfg, workers=2, scratch=ctx.scratch, timeout=600)
        rep.tlc("TokenStream (generator protocol): " + what, r)
        if r.violation:
            raise RuntimeError("TokenStream violates its theorem: " + r.violation)
    r = tlc.run("TokenStream", "TokenStream_lastonly.cfg", workers=1, scratch=ctx.scratch, timeout=600)
    rep.tlc("TokenStream without the discipline: TLC exhibits the lost token", r)
    rep.coverage_extra["token_stream_undisciplined_counterexample"] = r.violation or "none (unexpected)"


def self_test(ctx, rep, recs):
    """The binding must be able to fail: corrupt recorded traces (a send repeated, a returned token changed, the last
    events of a successful parse cut off) and require the judge to reject each with the right clause."""
    import copy
    base = next((r for r in recs if r["result"] == "module" and r["n"] >= 3 and any(e["op"] == "send" for e in r["ev"])), None)
    if base is None:
        return
    k = next(i for i, e in enumerate(base["ev"]) if e["op"] == "send")
    a, b, c = copy.deepcopy(base), copy.deepcopy(base), copy.deepcopy(base)
    a["ev"].insert(k, dict(a["ev"][k]))
    j = next(i for i, e in enumerate(b["ev"]) if e["op"] == "next" and e["r"] == 2)
    b["ev"][j]["r"] = 3
    last_first = next(i for i, e in enumerate(c["ev"]) if e["op"] == "next" and e["r"] == 2)
    c["ev"] = c["ev"][:last_first]
    p = os.path.join(ctx.scratch, "proto_self.json")
    with open(p, "w") as f:
        json.dump([{kk: r[kk] for kk in ("n", "ending", "kind", "ev", "result")} for r in (a, b, c)], f)
    r = tlc.run("Trace_TokenStream", "Trace_TokenStream.cfg", workers=1, scratch=ctx.scratch, env={"TRACE_FILE": p}, timeout=600)
    got = {v["tid"]: {f["clause"] for f in v["fails"]} for v in r.printed}
    want = {1: "send-while-holding", 2: "generator-response-differs", 3: "returned-with-unread-tokens"}
    for tid, clause in want.items():
        if clause not in got.get(tid, set()):
            raise RuntimeError("Trace_TokenStream accepted a corrupted trace (%s expected, got %s)" % (clause, got.get(tid)))
    rep.coverage_extra["generator_protocol_binding_self_test"] = "3 corrupted traces rejected: " + ", ".join(want.values())


def run_protocol(ctx, rep, jobs, label):
    """jobs: (config, text).  Returns the tally; never reports violations."""
    recs = [r for r in pool_map(_rec, jobs, chunksize=200) if r is not None]
    self_test(ctx, rep, recs)
    tally, samples, n = {}, [], 0
    for part in chunks(recs, 4000):
        p = os.path.join(ctx.scratch, "proto_%d.json" % n)
        n += 1
        with open(p, "w") as f:
            json.dump([{k: r[k] for k in ("n", "ending", "kind", "ev", "result")} for r in part], f)
        r = tlc.run("Trace_TokenStream", "Trace_TokenStream.cfg", workers=1, scratch=ctx.scratch,
                    env={"TRACE_FILE": p}, timeout=3000)
        if len(r.printed) != len(part):
            raise RuntimeError("Trace_TokenStream judged %d of %d traces" % (len(r.printed), len(part)))
        for v in r.printed:
            rec = part[v["tid"] - 1]
            clauses = sorted({f["clause"] for f in v["fails"]})
            for c in clauses or ["accepted"]:
                tally[c] = tally.get(c, 0) + 1
            if clauses and len(samples) < 6:
                samples.append({"config": rec["config"], "text": rec["text"], "clauses": clauses, "events": rec["ev"][:40]})
        os.unlink(p)
    rep.coverage_extra["generator_protocol_traces/" + label] = {
        "traces": len(recs), "events": sum(len(r["ev"]) for r in recs), "verdicts": tally, "rejected_sample": samples}
    del recs
    bad = {k: v for k, v in tally.items() if k != "accepted"}
    if bad:
        print("NOTE: PROTOCOL (diagnostic only): %s: %s" % (label, json.dumps(bad, sort_keys=True)))
    return tally
