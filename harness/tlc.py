"""Thin runner around TLC: start it, parse its report, collect the JSON lines a spec printed.

Nothing here knows anything about pvl.  A spec emits data either with
PrintT(ToJson(x)) (one TLA+ string per line on stdout) or by JsonSerialize to a
file named through an environment variable read with IOEnv.
"""
import json, os, re, shutil, subprocess, tempfile, time

SPEC_DIR = os.path.join(os.path.dirname(os.path.dirname(os.path.abspath(__file__))), "spec")
JAR = "/opt/veriftools/tla/tla2tools.jar"
DEPS = "/opt/veriftools/tla/CommunityModules-deps.jar"


class TLCError(Exception):
    """TLC itself failed (parse error, evaluation error, timeout): machinery failure."""


class TLCResult:
    def __init__(self):
        self.states = 0          # states generated
        self.distinct = 0        # distinct states
        self.depth = 0
        self.printed = []        # decoded JSON values printed by PrintT(ToJson(..))
        self.raw = ""
        self.violation = None    # text of an invariant / property violation, if any
        self.wall = 0.0
        self.coverage = {}       # action name -> count (when -coverage was on)

    def as_dict(self):
        return {"states": self.states, "distinct": self.distinct, "depth": self.depth,
                "wall_s": round(self.wall, 2)}


_str_line = re.compile(r'^"(.*)"$')


def _decode_tla_string(line):
    """A TLA+ string printed by TLC escapes quotes and backslashes like a JSON string literal."""
    if not _str_line.match(line):
        return None
    try:
        return json.loads(line)
    except ValueError:
        return None


def run(module, cfg=None, *, workers=1, scratch=None, env=None, timeout=3600, simulate=None,
        depth=None, seed=None, coverage=False, extra=(), spec_dir=SPEC_DIR, deadlock=False,
        collect=True, heap="8g", expect_violation=False, dfid=None, xss=None):
    """Run TLC on spec_dir/module.tla with spec_dir/cfg (default module.cfg)."""
    own = scratch is None
    if own:
        scratch = tempfile.mkdtemp(prefix="pvlverif-tlc-")
    meta = tempfile.mkdtemp(prefix="meta-", dir=scratch)
    cfg = cfg or (module + ".cfg")
    cfg_path = cfg if os.path.isabs(cfg) else os.path.join(spec_dir, cfg)
    mod_path = module if os.path.isabs(module) else os.path.join(spec_dir, module + ".tla")
    cmd = ["java", "-XX:+UseParallelGC", "-Xmx" + heap] + (["-Xss" + xss] if xss else []) + ["-DTLA-Library=" + SPEC_DIR,
           "-cp", JAR + ":" + DEPS, "tlc2.TLC",
           "-workers", str(workers), "-metadir", meta, "-noGenerateSpecTE",
           "-config", cfg_path]
    if not deadlock:
        pass  # deadlock checking is switched off in the cfg files (CHECK_DEADLOCK FALSE)
    if simulate:
        cmd += ["-simulate", simulate]
    if depth:
        cmd += ["-depth", str(depth)]
    if seed is not None:
        cmd += ["-seed", str(seed)]
    if coverage:
        cmd += ["-coverage", "1"]
    if dfid:
        cmd += ["-dfid", str(dfid)]
    cmd += list(extra)
    cmd.append(mod_path)
    e = dict(os.environ)
    e.pop("JAVA_TOOL_OPTIONS", None)
    if env:
        e.update({k: str(v) for k, v in env.items()})
    t0 = time.time()
    try:
        p = subprocess.run(cmd, stdout=subprocess.PIPE, stderr=subprocess.STDOUT, env=e,
                           timeout=timeout, cwd=scratch)
    except subprocess.TimeoutExpired as ex:
        shutil.rmtree(meta, ignore_errors=True)
        if own:
            shutil.rmtree(scratch, ignore_errors=True)
        raise TLCError("TLC timed out after %ss on %s/%s" % (timeout, module, cfg))
    r = TLCResult()
    r.wall = time.time() - t0
    out = p.stdout.decode("utf-8", "replace")
    r.raw = out
    shutil.rmtree(meta, ignore_errors=True)
    if own:
        shutil.rmtree(scratch, ignore_errors=True)
    for line in out.splitlines():
        if collect and line.startswith('"'):
            s = _decode_tla_string(line)
            if s is not None and s[:1] in "{[":
                try:
                    r.printed.append(json.loads(s))
                    continue
                except ValueError:
                    pass
        m = re.match(r"^(\d+) states generated, (\d+) distinct states found", line)
        if m:
            r.states, r.distinct = int(m.group(1)), int(m.group(2))
        m = re.match(r"^The depth of the complete state graph search is (\d+)", line)
        if m:
            r.depth = int(m.group(1))
        m = re.match(r"^<(\w+) line \d+, col \d+ to line \d+, col \d+ of module (\w+)>: (\d+):(\d+)", line)
        if m:
            r.coverage[m.group(2) + "." + m.group(1)] = int(m.group(4))
    if simulate and not r.states:
        m = re.search(r"(\d+) states checked", out)
        if m:
            r.states = r.distinct = int(m.group(1))
    viol = re.search(r"Error: (Invariant .* is violated|Action property .* is violated|"
                     r"Temporal properties were violated|Temporal property .* was violated|Deadlock reached|"
                     r"The postcondition .*|Assumption .* is false)", out)
    if viol:
        r.violation = viol.group(0)
    bad = ("Error:" in out and not viol) or p.returncode not in (0, 12, 13, 11, 10)
    if "Parsing or semantic analysis failed" in out or "TLC threw an unexpected exception" in out:
        bad = True
    if bad or (viol and not expect_violation and False):
        raise TLCError("TLC failed on %s/%s (rc=%s):\n%s" % (module, os.path.basename(cfg_path),
                                                            p.returncode, out[-4000:]))
    return r
