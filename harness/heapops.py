"""Building, copying, mutating and projecting real pvl containers for the Heap spec (C11, C13)."""
import copy, pickle, warnings


def cls_by_name():
    import pvl.collections as c
    return {"PVLModule": c.PVLModule, "PVLGroup": c.PVLGroup, "PVLObject": c.PVLObject,
            "OrderedMultiDict": c.OrderedMultiDict}


def build(tree, classes=None):
    classes = classes or cls_by_name()
    if tree["cls"] == "atom":
        return tree["s"]
    m = classes[tree["cls"]]()
    for k, sub in tree["items"]:
        m.append(k, build(sub, classes))
    return m


def project(obj, depth=0):
    """Tree projection through the public API only (iteration, type)."""
    import pvl.collections as c
    if isinstance(obj, str):
        return {"cls": "atom", "s": obj, "items": []}
    if isinstance(obj, c.OrderedMultiDict) and depth < 8:
        try:
            items = [[k if isinstance(k, str) else "!" + repr(k), project(v, depth + 1)] for k, v in list(obj)]
            # the mapping view must show the same thing
            if len(obj) != len(items) or [k for k in obj.keys()] != [i[0] for i in items]:
                return {"cls": "!incoherent:" + type(obj).__name__, "s": "", "items": items}
            for k in {i[0] for i in items}:
                first = next(v for kk, v in obj if kk == k)
                if obj[k] is not first and obj[k] != first:
                    return {"cls": "!incoherent-lookup:" + type(obj).__name__, "s": "", "items": items}
        except Exception as e:
            return {"cls": "!" + type(e).__name__, "s": "", "items": []}
        return {"cls": type(obj).__name__, "s": "", "items": items}
    return {"cls": "!" + type(obj).__name__, "s": repr(obj)[:60], "items": []}


def do_copy(m, mech):
    if mech == "copy_method":
        return m.copy()
    if mech == "copy_copy":
        return copy.copy(m)
    if mech == "deepcopy":
        return copy.deepcopy(m)
    if mech.startswith("pickle"):
        return pickle.loads(pickle.dumps(m, protocol=int(mech[6:])))
    raise AssertionError(mech)


def resolve(m, path):
    for j in path:
        m = m[j - 1][1]
    return m


def mutate(m, o):
    with warnings.catch_warnings():
        warnings.simplefilter("ignore")
        op, k, v = o["op"], o["k"], o["v"]
        if op == "append":
            m.append(k, v)
        elif op == "setitem":
            m[k] = v
        elif op == "delitem":
            del m[k]
        elif op == "pop":
            m.pop()
        elif op == "insert":
            m.insert(0, k, v)
        elif op == "clear":
            m.clear()
        else:
            raise AssertionError(op)
