"""Building, copying, mutating and projecting real pvl containers for the Heap spec (C11, C13)."""
import copy, pickle, warnings


def cls_by_name():
    import pvl.collections as c
    return {"PVLModule": c.PVLModule, "PVLGroup": c.PVLGroup, "PVLObject": c.PVLObject,
            "OrderedMultiDict": c.OrderedMultiDict}


def leaf(s):
    """atoms beginning with '@' stand for the non-string leaves a loader produces"""
    import datetime, decimal
    import pvl.collections as c, pvl.parser as P
    if s == "@empty":
        return P.EmptyValueAtLine(3)
    if s == "@qty":
        return c.Quantity(5, "m")
    if s == "@dt":
        return datetime.datetime(2001, 1, 1, 12, 0, tzinfo=datetime.timezone.utc)
    if s == "@dec":
        return decimal.Decimal("1.5")
    if s == "@qtydec":
        return c.Quantity(decimal.Decimal("1.5"), "m")      # a Quantity whose magnitude has copy hooks of its own
    if s == "@int":
        return 7
    if s == "@set":
        return frozenset(["a", 1])
    return s


def leaf_name(obj):
    import pvl.parser as P
    for name in ("@empty", "@qty", "@qtydec", "@dt", "@dec", "@int", "@set"):
        ref = leaf(name)
        if type(obj) is type(ref) and obj == ref and (name != "@empty" or getattr(obj, "lineno", None) == 3):
            return name
    return None


def build(tree, classes=None):
    import pvl.collections as c
    classes = classes or cls_by_name()
    if tree["cls"] == "atom":
        return leaf(tree["s"])
    if tree["cls"] == "list":
        return [build(sub, classes) for _, sub in tree["items"]]
    if tree["cls"] == "qtylist":
        return c.Quantity([build(sub, classes) for _, sub in tree["items"]], "m")
    m = classes[tree["cls"]]()
    for k, sub in tree["items"]:
        m.append(k, build(sub, classes))
    return m


def project(obj, depth=0):
    """Tree projection through the public API only (iteration, type)."""
    import pvl.collections as c
    if type(obj) is str:
        return {"cls": "atom", "s": obj, "items": []}
    if leaf_name(obj):
        return {"cls": "atom", "s": leaf_name(obj), "items": []}
    if type(obj) is list:
        return {"cls": "list", "s": "", "items": [["", project(v, depth + 1)] for v in obj]}
    if type(obj) is c.Quantity and type(obj.value) is list and obj.units == "m":
        return {"cls": "qtylist", "s": "", "items": [["", project(v, depth + 1)] for v in obj.value]}
    if isinstance(obj, c.OrderedMultiDict) and depth < 8:
        try:
            items = [[k if isinstance(k, str) else "!" + repr(k), project(v, depth + 1)] for k, v in list(obj)]
            # the mapping view must show the same thing
            if len(obj) != len(items) or [k for k in obj.keys()] != [i[0] for i in items]:
                return {"cls": "!incoherent:" + type(obj).__name__, "s": "", "items": items}
            for k in {i[0] for i in items}:
                first = next(v for kk, v in obj if kk == k)
                if obj[k] is not first and obj[k] != first:
                    return {"cls": "!incoherent-lookup:" + type(obj).__name__, "s": "", "items": items}
        except Exception as e:
            return {"cls": "!" + type(e).__name__, "s": "", "items": []}
        return {"cls": type(obj).__name__, "s": "", "items": items}
    return {"cls": "!" + type(obj).__name__, "s": repr(obj)[:60], "items": []}


def do_copy(m, mech):
    if mech == "copy_method":
        return m.copy()
    if mech == "copy_copy":
        return copy.copy(m)
    if mech == "deepcopy":
        return copy.deepcopy(m)
    if mech.startswith("pickle"):
        return pickle.loads(pickle.dumps(m, protocol=int(mech[6:])))
    raise AssertionError(mech)


def resolve(m, path):
    for j in path:
        m = m[j - 1][1]
    return m


def mutate(m, o):
    with warnings.catch_warnings():
        warnings.simplefilter("ignore")
        op, k, v = o["op"], o["k"], o["v"]
        import pvl.collections as c
        if type(m) is c.Quantity:
            m = m.value
        if type(m) is list:
            if op == "append":
                m.append(v)
            elif op == "pop":
                m.pop()
            elif op == "clear":
                m.clear()
            else:
                raise AssertionError(op)
            return
        if op == "append":
            m.append(k, v)
        elif op == "setitem":
            m[k] = v
        elif op == "delitem":
            del m[k]
        elif op == "pop":
            m.pop()
        elif op == "insert":
            m.insert(0, k, v)
        elif op == "clear":
            m.clear()
        else:
            raise AssertionError(op)
