"""Generates /verif/MANIFEST.json from the table below (python -m harness.manifest)."""
import json, os
VERIF = os.path.dirname(os.path.dirname(os.path.abspath(__file__)))

CHECKS = {
 "C10": dict(
    text="Bounded-exhaustive model checking of the list-of-pairs reference (spec/MultiDict.tla): TLC enumerates "
         "every operation history of depth 3 over a 61-instance operation set and the observer record of every "
         "list; every history is replayed on OrderedMultiDict/PVLModule/PVLGroup/PVLObject with the full observer "
         "record compared after each step; seeded random walks recorded from the real containers are judged by TLC "
         "(spec/Trace_MultiDict.tla) event by event.  A second pass runs the histories on a container that is replaced before every step by a copy of itself "
         "(constructor from a container, .copy(), copy.copy, extend of an empty one) while the old object goes its own way.",
    design_ref="DESIGN.md section 3 C10",
    note="Trusts TLC, the CommunityModules Json module and the projection function harness/props/c10.py:observe "
         "(public read API only). Keys/values are short strings; histories are exhaustive to depth 3 (4 in thorough, reduced op set), sampled beyond.",
    technique="TLA+ reference model + TLC bounded model checking; spec->code history replay; code->spec trace validation"),
 "C11": dict(
    text="TLC explores spec/MC_Heap.tla (containers as heap objects: build a nested container, Copy with one of 9 "
         "mechanisms - .copy(), copy.copy, copy.deepcopy, pickle protocols 0-5 -, mutate either side), checks CopyEqual, "
         "OrigIntact, ClassesKept and Independent on the model and prints every behaviour with the expected tree "
         "projection of both roots after each step; each behaviour is replayed on real containers of all four classes.  Leaves include the non-string "
         "values a loader produces (missing-value placeholder, Quantity, datetime, Decimal, int, frozenset); nested objects include lists (loaded sequences) and Quantities holding a list, "
         "which deep copies and pickles must duplicate as well.",
    design_ref="DESIGN.md section 3 C11",
    note="Shallow mechanisms are only mutated at top level (whether nested objects are shared is left free); trees up to 3 objects x 2 items, 1-2 mutations; trusts harness/heapops.py:project.",
    technique="TLA+ heap model + TLC bounded model checking; spec->code behaviour replay"),
 "C13": dict(
    text="TLC enumerates (module tree, dump/mutate script) cases from spec/MC_Dump.tla and model-checks the implementation-shaped "
         "PDS3 group->object conversion against DumpPure (pre-fix variant: counterexample; repaired variant: holds). Every script is run "
         "on real modules with the four encoders (via pvl.dumps and encoder.encode); every event (pre/post tree projection, text digest, "
         "exception) is judged by TLC with spec/Trace_Dump.tla.  Scripts include plain pvl.dumps(m) (default encoder), values of a per-session numeric class, and 'other activity' between dumps: "
         "other modules dumped, other encoders configured, the session's own encoder called with other options, its decoder shared with another encoder.",
    design_ref="DESIGN.md section 3 C13",
    note="Text equality is compared through 64-bit digests; repeatability is required between dumps with no mutation in between; the PDS3 relabel is permitted, not required.",
    technique="TLA+ heap model + TLC; code->spec trace validation of dump sessions"),
 "C16": dict(
    text="TLC enumerates every call history of length 3 (4 in thorough) over a 12-input pool from spec/Session.tla and model-checks the "
         "implementation-shaped errors list (leaking variant: counterexample; resetting variant: holds). Each history is issued to one "
         "long-lived instance of 30 parser/encoder/decoder kinds (classes, the module-level instances of pvl_validate and "
         "pvl_translate, and instances used through pvl.loads(parser=)/pvl.dumps(encoder=) with per-call grammar=/decoder=/formatting arguments) next to fresh instances; TLC judges every call with spec/Trace_Session.tla.",
    design_ref="DESIGN.md section 3 C16",
    note="Outcomes are compared as digests of (projected module, errors, exception type/message/position); object addresses in messages are masked.",
    technique="TLA+ session model + TLC; code->spec trace validation of call histories"),
 "C05": dict(
    text="TLC explores the reference grammar (spec/PvlGrammar.tla, a deterministic push-down machine with an explicit tree) over every "
         "token sequence <= 7 (8 thorough) whose proper prefixes are live - i.e. every truncation and every one-token dead extension - and prints "
         "the reference outcome of each; every sequence is spelled canonically in two layouts and loaded with the 5 parser configurations; "
         "a module returned where the reference rejects is a violation.  Character level: every string <= 4/3/3/5 over four PVL-significant alphabets (punctuation, control and non-ASCII "
         "characters, numerals, comment delimiters) explored by TLC on the reference loader (spec/MC_Loader.tla); damaged labels: single-character deletions, replacements and truncations of generated "
         "labels, judged against the reference loader by TLC (spec/Trace_Load.tla).",
    design_ref="DESIGN.md section 3 C05",
    note="Bounded: <= 7/8 tokens, <= 3-5 characters per alphabet, single edits of labels <= 2 statements.",
    technique="TLA+ push-down reference grammar + TLC bounded exhaustive exploration; spec->code replay of every explored token sequence"),
 "C06": dict(
    text="Same exploration as C05 (every token sequence the reference grammar explores, 5 configurations, 2 layouts), each load under a watchdog: "
         "a hang or an exception other than LexerError/ParseError is a violation; plus the character-level strings and damaged labels of C05 and date/time boundary texts and lexicon mutations in value position. "
         "Two implementation-shaped models: spec/ParserLoop.tla (parse_module + the Omni post hook at next/send/throw granularity; TLC proves Termination under weak fairness, OnlyDocumented and NothingSkipped for every "
         "token input <= 5 and exhibits the pre-repair non-progress cycle) and spec/TokenStream.tla (the lexer generator's put-back protocol; NetStream, OnlyLexerErrors), the latter bound by trace validation of every "
         "next/send/throw call the real parsers make (spec/Trace_TokenStream.tla, recording proxy passed as lexer_fn).",
    design_ref="DESIGN.md section 3 C06 and R1.2",
    note="Termination is shown for the enumerated inputs (watchdog on CPU time, a hang is confirmed with five times the budget) and, on the model, for every token input <= 5; the protocol verdicts are diagnostic.",
    technique="TLA+ push-down reference grammar + TLC bounded exhaustive exploration; spec->code replay under a watchdog"),
 "C08": dict(
    text="TLC explores the tolerant variant of the reference grammar (missing value after '=' before END, an end/begin keyword, ';', end of text, "
         "or a word that is itself followed by '='), with token i on line i; every explored sequence <= 7 (9 thorough) is loaded with the default and "
         "the ISIS configuration and must give the reference's statements, placeholders, line numbers and errors list; every text with a repaired value "
         "must be rejected by the strict PVL/ODL/PDS3 parsers.  Character level: spec/MC_Doc.tla (profile 'missing') generates labels with value-less assignments at every position under every layout "
         "style and gap separator (blank lines, CR-LF, comments containing '=', a trailing comment after the last statement); statements, placeholders and line numbers must be the generated ones.",
    design_ref="DESIGN.md section 3 C08",
    note="Bounded: <= 7/9 tokens; labels <= 2-3 statements.",
    technique="TLA+ push-down reference grammar (tolerant variant) + TLC; spec->code replay"),
 "C14": dict(
    text="spec/PvlValues.tla holds the date/time recogniser and denotation per dialect (shapes, calendar validity, zones, leap seconds, PDS3 "
         "restrictions); spec/MC_DateTime.tla renders texts from the boundary product of field values and TLC checks that the recogniser agrees with a "
         "field-level statement of the expected denotation; each text is decoded by the 5 real decoders and loaded through the lexer and compared; "
         "in the encode direction Python temporal values x 4 encoders are judged by TLC (spec/Trace_Time.tla: same type, instant, precision, or refusal). "
         "Thorough: every day of years 0001-9999 in both date forms from the TLC calendar table (spec/MC_Calendar.tla).",
    design_ref="DESIGN.md section 3 C14",
    note="Non-canonical field widths (2001-1-1, 1:2) and colon-less offsets (+0530) are left unspecified; fractions are covered by boundary classes, not all 10^6 values.",
    technique="TLA+ value/calendar model + TLC bounded exhaustive enumeration; spec->code replay and code->spec judging of encoder output"),
 "C15": dict(
    text="Allowed(d, c) in spec/PvlValues.tla is the character table; the real char_allowed() of the 5 grammars is evaluated on all 1 114 112 code points "
         "and every code point of every logged range is checked by TLC (spec/Trace_Chars.tla); TLC builds texts with a code point at 22 kinds of position "
         "(spec/MC_Chars.tla, with model-level theorems that a disallowed character before END is a lexical rejection at that character and that nothing "
         "after END matters; also the very first and last character of the text and positions after lone CRs and CR-LF line ends) and real loads are judged: LexerError iff disallowed before END, pos/lineno/colno mutually consistent and near the character.",
    design_ref="DESIGN.md section 3 C15",
    note="Positions use class representatives of the code space (every code point <= 0x17F plus 4096 seeded others in thorough).",
    technique="TLA+ character tables and loader + TLC exhaustive table check; trace judging of real loads"),
 "C17": dict(
    text="Classify(d, s) in spec/PvlValues.tla is the total, exclusive classification (TLC checks totality and the derived theorems over all token texts <= 4/5 "
         "over a 13-character alphabet, spec/MC_Class.tla); for every enumerated text and every single-edit mutation of a 110-word lexicon x 5 grammar/decoder "
         "pairs the Token predicates, the decoder's own sub-decoders, decode_simple_value outcome and encoder quoting decision are recorded and judged by TLC (spec/Trace_Class.tla); the token the real lexer yields "
         "for the same text must carry the same predicates, and `<text> = 1` must not load when the text is a number or date.",
    design_ref="DESIGN.md section 3 C17",
    note="Domain: non-empty token texts without white space unless quoted.  Differences between the library's class and the reference class are reported under C03.",
    technique="TLA+ classification model + TLC bounded exhaustive enumeration; code->spec judging of classification records"),
 "C03": dict(
    text="spec/MC_Doc.tla generates well-formed labels from spelling tables that state the denoted tree independently of the recognisers (every radix and sign "
         "position, real forms, both quote characters, unquoted words, dates/times/offsets, units, nested sets and sequences, BEGIN_/plain keywords in three "
         "letter cases, optional delimiters and end-statement names); TLC checks on the model that the reference loader (PvlLexer+PvlValues+PvlGrammar) reads "
         "exactly the generated tree for every label and layout; every label is loaded by the 5 parser configurations and compared with the generated tree. "
         "The reference class of every enumerated token text is also compared with the library's class.  A seeded family of random walks through the generator (TLC -simulate) adds longer labels.",
    design_ref="DESIGN.md section 3 C03",
    note="One statement per label is spelled from the full tables, the others canonically; <= 3 statements (4 thorough), nesting <= 2; numeric denotation (int(), float()) is trusted to Python.",
    technique="TLA+ generator + reference loader, reader=writer model-checked by TLC; spec->code replay"),
 "C04": dict(
    text="Same generator (profile 'layout'): for every gap of every generated label every separator of the dialect's separator table (white-space characters, runs, "
         "comments with hostile content, '#' comments) or its removal where optional, plus 3 global styles; TLC checks layout independence of the reference on the "
         "model; every text is loaded by the real parser and must give the generated tree.  The tests/data corpus is re-laid-out at the reference lexer's token "
         "boundaries (computed by TLC) with seeded separators and must load to the same module.  Configurations whose grammar and decoder are different objects or dialects (reachable through "
         "grammar=/decoder=) are judged metamorphically: every layout of a label must load exactly as its plainest layout.",
    design_ref="DESIGN.md section 3 C04",
    note="A '#' comment that is not set off by white space or not ended by a line end, and white space after a units expression, are outside the statement and not generated.",
    technique="TLA+ generator + reference loader + TLC; spec->code replay; metamorphic re-layout of real labels at TLC-computed token boundaries"),
 "C01": dict(
    text="TLC generates modules (spec/MC_Module.tla: a value lexicon on the class borders of the dialects x positions, plus duplicate keys, group/object mixes, unusual names), "
         "checks that Norm (spec/PvlNorm.tla: the documented normalisations) is idempotent, and computes Norm(E, E, m) for every dump; the real encoders write every module under a grid of "
         "option combinations; the strict loader of the same dialect must return Norm(E, E, m); the reference reader (TLC) reads the same text, which separates encoder faults from loader faults.  A reference writer "
         "(spec/PvlWriter.tla; TLC checks reader o writer = Norm on the model) is compared literally with the real encoders' default output as a binding report.",
    design_ref="DESIGN.md section 3 C01",
    note="Refusal with ValueError/TypeError is always allowed; floats and ints are compared by value (Python's int()/float() trusted).",
    technique="TLA+ normalisation model + reference reader, TLC; code->spec judging of encoder output and reload comparison"),
 "C02": dict(
    text="Same generator, encoders and option grid as C01; every written text is read by pvl.loads with no arguments and must give Norm(E, OMNI, m) with an empty errors list.",
    design_ref="DESIGN.md section 3 C02",
    note="As C01.",
    technique="TLA+ normalisation model, TLC; spec-generated modules dumped by the code and reloaded with the default loader"),
 "C07": dict(
    text="Texts the default loader accepts (TLC-generated labels with free spelling, every token sequence the tolerant reference grammar accepts incl. missing values, the corpus, seeded corpus splices) "
         "x 4 encoders: load, dump, load, dump; the second load must equal Norm(E, OMNI, first load) computed by TLC and the second dump must be byte-identical (multiset of lines with sets).",
    design_ref="DESIGN.md section 3 C07",
    note="Encoders with default options.",
    technique="TLA+ normalisation model, TLC; spec-generated and real texts cycled through the code, judged against Norm"),
 "C09": dict(
    text="spec/PvlEntry.tla specifies every entry point as 'longest valid UTF-8 prefix, then reference load' (strict UTF-8 decoder in TLA+); labels x separators after END x trailing byte strings are "
         "handed to load()/loadu()/loads() in 7 ways and every result is compared with the reference outcome TLC computes for the bytes; a counting lexer checks that no token is requested after END; "
         "dump targets are judged by spec/Trace_Entry.tla.",
    design_ref="DESIGN.md section 3 C09",
    note="Trailers up to 256 KiB (1 MiB thorough); TLC sees the label plus the first 160 trailer bytes (nothing after END is read by the reference).",
    technique="TLA+ entry-point model + reference loader, TLC; code->spec judging of entry-point runs"),
 "C12": dict(
    text="Every text written by the real encoders for the C01 module generator and option grid is one trace judged by TLC (spec/Trace_Output.tla): the reference lexer and strict grammar of the "
         "encoder's dialect read it; layout predicates over token positions and gaps check characters, well-formedness, END tail, white space, statement indentation, '=' alignment, keyword spelling, "
         "end-statement names, delimiters and ODL parameter names.  Modules the loader produces from the tests/data corpus are judged the same way; encoders that fix their own grammar are also run with only a "
         "decoder of another dialect handed in.",
    design_ref="DESIGN.md section 3 C12",
    note="Alignment of statements that do not fit on one line, where long values are broken and which quote character is used are left free.",
    technique="TLA+ reference reader + layout predicates evaluated by TLC on recorded encoder output (trace validation)"),
 "C18": dict(
    text="spec/MC_Doc.tla (profile 'hooks') generates labels with reals at every grammar position and states, with Retag, the tree each hook combination must yield (TLC checks that retagging changes "
         "nothing else); the labels are loaded with PVL/ODL/ISIS/default parsers x {Decimal; recording str subclass + recording quantity class + subclassed containers; Fraction; a quantity class that refuses the "
         "units, where the load must fail rather than drop them} and compared.",
    design_ref="DESIGN.md section 3 C18",
    note="PDSLabelDecoder takes no real_cls and is not exercised with one.",
    technique="TLA+ generator with Retag + TLC; spec->code replay"),
 "C19": dict(
    text="Well-formed labels generated by TLC and the corpus: pvl.loads vs pvl.new.loads and pvl.dumps vs pvl.new.dumps (4 encoders and the default), judged by TLC "
         "(spec/Trace_Frontends.tla: new tree = AsNew(old tree), equal success, equal dump digests).",
    design_ref="DESIGN.md section 3 C19",
    note="Texts with missing values are excluded (not well-formed).",
    technique="TLA+ front-end model, TLC; code->spec trace judging (differential)"),
 "C20": dict(
    text="TLC enumerates tool invocations over a pool of generated, damaged, missing-value and corpus files, files with a byte order mark, undecodable bytes after END, deep nesting, sets of quantities (spec/MC_Frontends.tla); pvl_translate and pvl_validate main() are run in-process, the "
         "library calls they front are made separately on fresh instances, and TLC judges text by text and cell by cell (spec/Trace_Frontends.tla over spec/Frontends.tla), including the JSON document's names and values.",
    design_ref="DESIGN.md section 3 C20",
    note="In-process invocation (argv lists); report text parsed by splitting on '|'.",
    technique="TLA+ front-end model, TLC; code->spec trace judging"),
}
PENDING_REASON = "check not built yet in this round (planned, see DESIGN.md section 6); not claimed until it runs"
ALL = ["C%02d" % i for i in range(1, 21)]


def build():
    checks = []
    for pid in ALL:
        if pid not in CHECKS:
            continue
        c = CHECKS[pid]
        checks.append({
            "property_id": pid,
            "quick_cmd": "bin/check %s --tier quick" % pid,
            "thorough_cmd": "bin/check %s --tier thorough" % pid,
            "evidence_file": "/verif/evidence/%s.json" % pid,
            "replay_cmd_template": "bin/check %s --replay {path}" % pid,
            "engine": "tla-conformance",
            "level_claimed": {"category": "model_checking", "text": c["text"], "design_ref": c["design_ref"]},
            "level_note": c["note"],
            "technique": c["technique"],
        })
    m = {
        "version": 1,
        "setup_cmd": "bin/setup",
        "hooks": {
            "guard": "PVL_VERIF",
            "enable": "no build step: checks import pvl from /repo's working tree (PYTHONPATH) with PVL_VERIF=1 in the environment; no guarded hook exists in /repo at present (all observation goes through the public API)",
            "baseline_off_cmd": "cd /repo && env -u PVL_VERIF /venv/bin/python -m pytest -ra -q -p no:cacheprovider --timeout=900 --continue-on-collection-errors",
            "source_commits": [],
            "add_only": True,
        },
        "engines": [{
            "name": "tla-conformance",
            "path": "/verif/harness",
            "serves_properties": sorted(CHECKS),
            "kind_free_text": "TLA+ specifications in /verif/spec checked with TLC; TLC-emitted cases replayed into pvl (spec->code) and traces recorded from pvl judged by TLC (code->spec)",
        }],
        "checks": checks,
        "not_applicable": [{"property_id": p, "reason": PENDING_REASON} for p in ALL if p not in CHECKS],
        "notes": "Exit codes: 0 property held on everything explored (KNOWN-FINDING lines possible), 1 VIOLATION, 2 machinery failure. known_findings.json lists open findings (suppressed by spec-level signature) and fixed ones (suppress nothing).",
    }
    with open(os.path.join(VERIF, "MANIFEST.json"), "w") as f:
        json.dump(m, f, indent=1)
    return m


if __name__ == "__main__":
    m = build()
    try:
        import jsonschema
        jsonschema.validate(m, json.load(open("/root/.vp/MANIFEST.schema.json")))
        print("MANIFEST.json valid")
    except ImportError:
        print("MANIFEST.json written (jsonschema not available for validation)")
