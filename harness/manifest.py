"""Generates /verif/MANIFEST.json from the table below (python -m harness.manifest)."""
import json, os
VERIF = os.path.dirname(os.path.dirname(os.path.abspath(__file__)))

CHECKS = {
 "C10": dict(
    text="Bounded-exhaustive model checking of the list-of-pairs reference (spec/MultiDict.tla): TLC enumerates "
         "every operation history of depth 3 over a 61-instance operation set and the observer record of every "
         "list; every history is replayed on OrderedMultiDict/PVLModule/PVLGroup/PVLObject with the full observer "
         "record compared after each step; seeded random walks recorded from the real containers are judged by TLC "
         "(spec/Trace_MultiDict.tla) event by event.",
    design_ref="DESIGN.md section 3 C10",
    note="Trusts TLC, the CommunityModules Json module and the projection function harness/props/c10.py:observe "
         "(public read API only). Keys/values are short strings; histories are exhaustive to depth 3 (4 in thorough, reduced op set), sampled beyond.",
    technique="TLA+ reference model + TLC bounded model checking; spec->code history replay; code->spec trace validation"),
}
PENDING_REASON = "check not built yet in this round (planned, see DESIGN.md section 6); not claimed until it runs"
ALL = ["C%02d" % i for i in range(1, 21)]


def build():
    checks = []
    for pid in ALL:
        if pid not in CHECKS:
            continue
        c = CHECKS[pid]
        checks.append({
            "property_id": pid,
            "quick_cmd": "bin/check %s --tier quick" % pid,
            "thorough_cmd": "bin/check %s --tier thorough" % pid,
            "evidence_file": "/verif/evidence/%s.json" % pid,
            "replay_cmd_template": "bin/check %s --replay {path}" % pid,
            "engine": "tla-conformance",
            "level_claimed": {"category": "model_checking", "text": c["text"], "design_ref": c["design_ref"]},
            "level_note": c["note"],
            "technique": c["technique"],
        })
    m = {
        "version": 1,
        "setup_cmd": "bin/setup",
        "hooks": {
            "guard": "PVL_VERIF",
            "enable": "no build step: checks import pvl from /repo's working tree (PYTHONPATH) with PVL_VERIF=1 in the environment; no guarded hook exists in /repo at present (all observation goes through the public API)",
            "baseline_off_cmd": "cd /repo && env -u PVL_VERIF /venv/bin/python -m pytest -ra -q -p no:cacheprovider --timeout=900 --continue-on-collection-errors",
            "source_commits": [],
            "add_only": True,
        },
        "engines": [{
            "name": "tla-conformance",
            "path": "/verif/harness",
            "serves_properties": sorted(CHECKS),
            "kind_free_text": "TLA+ specifications in /verif/spec checked with TLC; TLC-emitted cases replayed into pvl (spec->code) and traces recorded from pvl judged by TLC (code->spec)",
        }],
        "checks": checks,
        "not_applicable": [{"property_id": p, "reason": PENDING_REASON} for p in ALL if p not in CHECKS],
        "notes": "Exit codes: 0 property held on everything explored (KNOWN-FINDING lines possible), 1 VIOLATION, 2 machinery failure. known_findings.json lists open findings (suppressed by spec-level signature) and fixed ones (suppress nothing).",
    }
    with open(os.path.join(VERIF, "MANIFEST.json"), "w") as f:
        json.dump(m, f, indent=1)
    return m


if __name__ == "__main__":
    m = build()
    try:
        import jsonschema
        jsonschema.validate(m, json.load(open("/root/.vp/MANIFEST.schema.json")))
        print("MANIFEST.json valid")
    except ImportError:
        print("MANIFEST.json written (jsonschema not available for validation)")
