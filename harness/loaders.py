"""The five parser configurations and a guarded `load` that reports an outcome record."""
import signal, warnings
from .projection import project

CONFIGS = ["PVL", "ODL", "PDS3", "ISIS", "OMNI"]
GRAMMAR_CFG = {"PVL": "strict", "ODL": "odl", "PDS3": "odl", "ISIS": "tolerant", "OMNI": "tolerant"}


class Hang(BaseException):
    pass


def _alarm(*a):
    raise Hang()


def make_parser(config, **kw):
    import pvl.parser as P, pvl.grammar as G, pvl.decoder as D
    if config == "PVL":
        g = G.PVLGrammar()
        return P.PVLParser(grammar=g, decoder=D.PVLDecoder(grammar=g), **kw)
    if config == "ODL":
        g = G.ODLGrammar()
        return P.ODLParser(grammar=g, decoder=D.ODLDecoder(grammar=g), **kw)
    if config == "PDS3":
        g = G.PDSGrammar()
        return P.ODLParser(grammar=g, decoder=D.PDSLabelDecoder(grammar=g), **kw)
    if config == "ISIS":
        g = G.ISISGrammar()
        return P.OmniParser(grammar=g, decoder=D.OmniDecoder(grammar=g), **kw)
    if config == "OMNI":
        return None
    raise AssertionError(config)


class watchdog:
    """Raises Hang in the guarded block after `seconds` of CPU time of this process (ITIMER_VIRTUAL: a machine
    under load cannot make a terminating call look like a hang), with a wall-clock backstop of 60 x that."""

    def __init__(self, seconds):
        self.s = seconds

    def __enter__(self):
        signal.signal(signal.SIGVTALRM, _alarm)
        signal.signal(signal.SIGALRM, _alarm)
        signal.setitimer(signal.ITIMER_VIRTUAL, self.s)
        signal.setitimer(signal.ITIMER_REAL, self.s * 60)
        return self

    def __exit__(self, *a):
        signal.setitimer(signal.ITIMER_VIRTUAL, 0)
        signal.setitimer(signal.ITIMER_REAL, 0)
        return False


def load(config, text, timeout=2.0, parser=None, parser_factory=None):
    """Load text under config; outcome = module | raise | hang.  A hang is reported only if a second attempt with
    five times the CPU budget does not finish either."""
    obs = _load(config, text, timeout, parser)
    if obs["kind"] == "hang" and _CONFIRMED[0] < 10:      # after 10 confirmed hangs in this process the CPU timer is trusted
        obs = _load(config, text, timeout * 5, parser_factory() if parser_factory else parser)
        if obs["kind"] == "hang":
            _CONFIRMED[0] += 1
    return obs


_CONFIRMED = [0]


def _load(config, text, timeout, parser):
    import pvl
    try:
        with watchdog(timeout):
            with warnings.catch_warnings():
                warnings.simplefilter("ignore")
                if config == "OMNI" and parser is None:
                    m = pvl.loads(text)
                else:
                    m = pvl.loads(text, parser=parser or make_parser(config))
        errs = getattr(m, "errors", None)
        return {"kind": "module", "tree": project(m), "errors": list(errs) if errs is not None else None}
    except Hang:
        return {"kind": "hang"}
    except BaseException as e:
        signal.setitimer(signal.ITIMER_VIRTUAL, 0)
        signal.setitimer(signal.ITIMER_REAL, 0)
        if isinstance(e, (KeyboardInterrupt, SystemExit)):
            raise
        return {"kind": "raise", "type": type(e).__name__,
                "documented": type(e).__name__ in ("LexerError", "ParseError"),
                "pos": getattr(e, "pos", None), "lineno": getattr(e, "lineno", None),
                "colno": getattr(e, "colno", None), "msg": str(e)[:200]}


def canon(node):
    """Canonical form of a tagged tree for comparison: set members sorted and de-duplicated."""
    xs = [canon(x) for x in node["xs"]]
    if node["t"] == "set":
        seen, out = set(), []
        for x in sorted(xs, key=lambda n: repr(_key(n))):
            k = repr(_key(x))
            if k not in seen:
                seen.add(k)
                out.append(x)
        xs = out
    return {"t": node["t"], "s": node["s"], "xs": xs}


def _key(n):
    return (n["t"], n["s"], [_key(x) for x in n["xs"]])


def judge(ref, obs, tolerant):
    """Compare a reference outcome (from TLC) with an observed one.

    Returns None when they agree, else (property, observed-kind).  Attribution:
    undocumented exception or hang -> C06; module returned where the reference rejects -> C05;
    reference accepts but the code rejects or returns another tree -> C08 when the reference
    repaired missing values, else C03.
    """
    if obs["kind"] == "hang":
        return ("C06", "hang")
    if obs["kind"] == "raise" and not obs["documented"]:
        return ("C06", "escape:" + obs["type"])
    if ref["verdict"] == "reject":
        if obs["kind"] == "module":
            return ("C05", "module-returned")
        return None
    if ref["verdict"] != "accept":
        return None                                  # unspecified
    owner = "C08" if ref["errs"] else "C03"
    if obs["kind"] == "raise":
        return (owner, "raise:" + obs["type"])
    if canon(obs["tree"]) != canon(ref["tree"]):
        return (owner, "module-differs")
    if tolerant:
        if obs["errors"] != [int(x) for x in ref["errs"]]:
            return (owner, "errors-differ")
    return None


def features(tree):
    """Spec-level shape features of a reference tree: container nestings and leaf tags."""
    out = set()

    def walk(n, parent):
        t = n["t"]
        if t == "item":
            for x in n["xs"]:
                walk(x, parent)
            return
        if parent:
            out.add(parent + ">" + t)
        else:
            out.add(t)
        for x in n["xs"]:
            walk(x, t)
    if tree and tree.get("t") not in (None, "none"):
        for x in tree["xs"]:
            walk(x, "")
    return sorted(out)


def cps(s):
    return "".join(map(chr, s)) if isinstance(s, list) else s


def from_tla(node):
    """A tagged tree printed by TLC (text payloads as code-point arrays) -> the projection's form.
    Numerals are canonicalised here: int "radix:[sign]digits" -> decimal text, real text -> repr(float)."""
    t, s = node["t"], cps(node["s"])
    if t == "int":
        radix, _, digits = s.partition(":")
        s = str(int(digits, int(radix)))
    elif t == "real":
        s = repr(float(s))
    return {"t": t, "s": s, "xs": [from_tla(x) for x in node["xs"]]}


def ref_outcome(o):
    """Reference outcome record printed by TLC -> python form."""
    r = dict(o)
    if "tree" in r and r.get("verdict") == "accept":
        r["tree"] = from_tla(r["tree"])
    for k in ("why", "locus"):
        if k in r and isinstance(r[k], list):
            r[k] = cps(r[k])
    return r


import re as _re
_FLOATWORD = _re.compile(r"(?i)(?<![A-Za-z0-9_])[+-]?(inf|infinity|nan)(?![A-Za-z0-9_])")
_UNDERSCORE_NUM = _re.compile(r"[0-9]_[0-9]")
_DASHCONT = _re.compile(r"-[\n\r\f]")


def text_features(text):
    """Lexical features of a text that known findings are keyed on (computed from the text only)."""
    out = []
    if _FLOATWORD.search(text):
        out.append("python-float-word")
    if _UNDERSCORE_NUM.search(text):
        out.append("digit-underscore")
    if _DASHCONT.search(text):
        out.append("dash-continuation")
    return out
