"""Projection of pvl values and containers to uniformly tagged JSON trees {t, s, xs}.

t : type tag; s : text payload; xs : children.  Only public accessors are used.
Numbers cross as their canonical numeral text; the comparison of texts is exact, floats are
written with repr() (shortest round-trip form).
"""
import datetime, decimal, fractions


def N(t, s="", xs=None):
    return {"t": t, "s": s, "xs": xs or []}


def tz_text(tz, ref=None):
    if tz is None:
        return "naive"
    off = tz.utcoffset(ref)
    if off is None:
        return "naive"
    mins = int(off.total_seconds() // 60)
    return "utc" if mins == 0 else "off%+d" % mins


def project(v, depth=0):
    import pvl.collections as c
    from pvl.parser import EmptyValueAtLine
    if depth > 40:
        return N("!deep")
    if v is None:
        return N("null")
    if isinstance(v, bool):
        return N("bool", "true" if v else "false")
    if isinstance(v, EmptyValueAtLine):
        return N("empty", str(v.lineno), [N("str", str(v))])
    if isinstance(v, int):
        return N("int", str(v))
    if isinstance(v, float):
        return N("real", repr(v))
    if isinstance(v, decimal.Decimal):
        return N("decimal", str(v))
    if isinstance(v, fractions.Fraction):
        return N("fraction", str(v))
    if isinstance(v, str):
        return N(type(v).__name__ if type(v) is not str else "str", str(v))
    if isinstance(v, datetime.datetime):
        return N("datetime", v.replace(tzinfo=None).isoformat(timespec="microseconds") + "|" + tz_text(v.tzinfo, v))
    if isinstance(v, datetime.date):
        return N("date", v.isoformat())
    if isinstance(v, datetime.time):
        return N("time", v.replace(tzinfo=None).isoformat(timespec="microseconds") + "|" + tz_text(v.tzinfo))
    if isinstance(v, c.Quantity):
        return N("qty", str(v.units), [project(v.value, depth + 1)])
    if isinstance(v, (c.OrderedMultiDict,)) or (hasattr(c, "PVLMultiDict") and isinstance(v, c.PVLMultiDict)):
        name = type(v).__name__
        kids = []
        try:
            for k, val in list(v.items()):
                kids.append(N("item", str(k), [project(val, depth + 1)]))
        except Exception as e:
            return N("!" + type(e).__name__, name)
        return N(name, "", kids)
    if isinstance(v, dict):
        return N("dict", "", [N("item", str(k), [project(val, depth + 1)]) for k, val in v.items()])
    if isinstance(v, (list, tuple)):
        return N("seq" if isinstance(v, list) else "tuple", "", [project(x, depth + 1) for x in v])
    if isinstance(v, (set, frozenset)):
        kids = [project(x, depth + 1) for x in v]
        kids.sort(key=lambda n: repr(sorted_key(n)))
        return N("set", "", kids)
    if hasattr(v, "value") and hasattr(v, "units"):
        return N("qty:" + type(v).__name__, str(v.units), [project(v.value, depth + 1)])
    return N("!" + type(v).__name__, repr(v)[:80])


def sorted_key(n):
    return (n["t"], n["s"], [sorted_key(x) for x in n["xs"]])


def digest(obj):
    import hashlib, json
    return hashlib.blake2b(json.dumps(obj, sort_keys=True).encode("utf-8", "surrogatepass"), digest_size=8).hexdigest()
