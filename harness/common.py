"""Shared plumbing of the checks: context, verdict pipeline, known findings, evidence.

A check produces *cases*.  Every case has a verdict computed from a TLA+ reference
(emitted by TLC or decided by TLC on a recorded trace).  A failing case carries a
spec-level signature {config, locus, observed}; it is a KNOWN-FINDING when an `open`
entry of /verif/known_findings.json lists that signature for the property, a
VIOLATION otherwise.  Nothing here writes known_findings.json.
"""
import hashlib, json, os, random, shutil, sys, tempfile, time, traceback

VERIF = os.path.dirname(os.path.dirname(os.path.abspath(__file__)))
REPO = os.environ.get("PVL_REPO", "/repo")
FINDINGS_FILE = os.path.join(VERIF, "known_findings.json")
OUT = os.environ.get("VERIF_OUT", VERIF)          # where evidence/ and replays/ are written (default: /verif)


def import_pvl():
    """(Re-)import pvl from the working tree of REPO (no build step: pure Python)."""
    if REPO not in sys.path:
        sys.path.insert(0, REPO)
    os.environ.setdefault("PVL_VERIF", "1")
    import pvl  # noqa
    assert os.path.realpath(pvl.__file__).startswith(os.path.realpath(REPO)), pvl.__file__
    return pvl


class MachineryError(Exception):
    pass


class Ctx:
    def __init__(self, prop, tier, seed):
        self.prop = prop
        self.tier = tier
        self.seed = seed
        self.scratch = tempfile.mkdtemp(prefix="pvlverif-%s-" % prop)
        self.t0 = time.time()
        self.rng = random.Random(seed)
        self.thorough = tier == "thorough"

    def cleanup(self):
        shutil.rmtree(self.scratch, ignore_errors=True)


def load_findings(prop):
    if not os.path.exists(FINDINGS_FILE):
        return []
    with open(FINDINGS_FILE) as f:
        data = json.load(f)
    def owns(e):
        p = e.get("property")
        return prop in p if isinstance(p, list) else p == prop
    return [e for e in data.get("findings", []) if owns(e)]


def sig_matches(entry_sig, sig):
    """Every key of the entry's signature must be present and equal (lists = alternatives)."""
    for k, v in entry_sig.items():
        if k.endswith("_all"):                      # every listed value must be in the list-valued field
            have = sig.get(k[:-4]) or []
            if not all(x in have for x in v):
                return False
            continue
        if k.endswith("_has"):                      # membership in a list-valued signature field (a list = any of)
            have = sig.get(k[:-4]) or []
            if not any(x in have for x in (v if isinstance(v, list) else [v])):
                return False
            continue
        if k not in sig:
            return False
        if isinstance(v, list):
            if sig[k] not in v:
                return False
        elif sig[k] != v:
            return False
    return True


class Report:
    """Collects what a check run covered and decides its exit status."""

    def __init__(self, ctx, level="model_checking"):
        self.ctx = ctx
        self.level = level
        self.states = 0
        self.transitions = 0
        self.tlc_runs = []
        self.traces_validated = 0
        self.evaluations = 0
        self.nontrivial = set()
        self.samples = []
        self.failures = []      # (sig, case, detail)
        self.notes = []
        self.parts = {}         # name -> dict of per-part counts
        self.exhaustive = {}
        self.assumptions = []
        self.rule = ""
        self.coverage_extra = {}

    # -- accounting -------------------------------------------------------
    def tlc(self, name, r):
        self.states += r.distinct or r.states
        self.transitions += r.states
        self.tlc_runs.append(dict(name=name, **r.as_dict()))
        if r.coverage:
            self.tlc_runs[-1]["coverage"] = r.coverage

    def count(self, part, n=1, key="cases"):
        d = self.parts.setdefault(part, {})
        d[key] = d.get(key, 0) + n

    def case(self, part, distinct_key=None, nontrivial=True):
        self.evaluations += 1
        self.count(part)
        if nontrivial and distinct_key is not None:
            self.nontrivial.add(hashlib.blake2b(repr(distinct_key).encode("utf-8", "surrogatepass"),
                                                digest_size=8).digest())

    def sample(self, s, limit=6):
        if len(self.samples) < limit:
            self.samples.append(s)

    def fail(self, sig, case, detail):
        self.failures.append((sig, case, detail))

    def note(self, s):
        self.notes.append(s)
        print("NOTE: " + s)

    # -- verdict ----------------------------------------------------------
    def finish(self):
        ctx = self.ctx
        prop = ctx.prop
        findings = load_findings(prop)
        open_entries = [e for e in findings if e.get("status") == "open"]
        known_hits = {}
        violations = []
        for sig, case, detail in self.failures:
            hit = None
            for e in open_entries:
                if sig_matches(e["signature"], sig):
                    hit = e
                    break
            if hit is not None:
                known_hits.setdefault(hit["id"], [hit, 0, case])
                known_hits[hit["id"]][1] += 1
            else:
                violations.append((sig, case, detail))
        for fid, (e, n, case) in sorted(known_hits.items()):
            print("KNOWN-FINDING: property=%s %s [%s; %d case(s) this run]" %
                  (prop, e["description"], fid, n))
        # group violations by signature, write one replay file per signature (max 20)
        by_sig = {}
        for sig, case, detail in violations:
            by_sig.setdefault(json.dumps(sig, sort_keys=True), []).append((case, detail))
        rdir = os.path.join(OUT, "replays", prop)
        shutil.rmtree(rdir, ignore_errors=True)          # replays of earlier runs are stale
        n = 0
        for sk, lst in sorted(by_sig.items(), key=lambda kv: -len(kv[1])):
            n += 1
            if n > 20:
                break
            os.makedirs(rdir, exist_ok=True)
            path = os.path.join(rdir, "%d.json" % n)
            with open(path, "w") as f:
                json.dump({"property": prop, "signature": json.loads(sk), "count": len(lst),
                           "case": lst[0][0], "detail": lst[0][1],
                           "more": [c for c, _ in lst[1:4]]}, f, indent=1, default=str)
            print("VIOLATION property=%s replay=%s  signature=%s cases=%d detail=%s" %
                  (prop, path, sk, len(lst), json.dumps(lst[0][1], default=str)[:300]))
        wall = time.time() - ctx.t0
        cov = {
            "states": self.states, "transitions": self.transitions,
            "traces_validated_against_impl": self.traces_validated,
            "evaluations": self.evaluations,
            "distinct_nontrivial": len(self.nontrivial),
            "rule": self.rule,
            "samples": self.samples or [{"note": "no sample recorded"}],
            "exhaustive": bool(self.exhaustive) and all(self.exhaustive.values()),
            "exhaustive_parts": self.exhaustive,
            "parts": self.parts,
            "tlc_runs": self.tlc_runs,
            "known_findings_seen": {fid: n for fid, (e, n, c) in known_hits.items()},
            "notes": self.notes,
        }
        cov.update(self.coverage_extra)
        ev = {"property_id": prop, "tier": ctx.tier, "seed": ctx.seed, "level": self.level,
              "coverage": cov, "assumptions": self.assumptions, "wall_s": round(wall, 2),
              "violations": len(by_sig)}
        os.makedirs(os.path.join(OUT, "evidence"), exist_ok=True)
        with open(os.path.join(OUT, "evidence", prop + ".json"), "w") as f:
            json.dump(ev, f, indent=1, default=str)
        print("%s %s: %d cases, %d TLC states, %d traces validated, %d known-finding class(es), "
              "%d violation class(es), %.1fs" % (prop, ctx.tier, self.evaluations, self.states,
                                                 self.traces_validated, len(known_hits),
                                                 len(by_sig), wall))
        return 1 if by_sig else 0


def chunks(lst, n):
    for i in range(0, len(lst), n):
        yield lst[i:i + n]


def pool_map(fn, items, procs=None, chunksize=None):
    """Fork-based multiprocessing map (pvl is imported in the parent first)."""
    import multiprocessing as mp
    procs = procs or min(16, os.cpu_count() or 4)
    if len(items) < 200 or procs <= 1:
        return [fn(x) for x in items]
    ctxm = mp.get_context("fork")
    # chunks are capped: one pickled chunk must stay far below the 2 GiB a pipe message can carry comfortably
    chunk = min(chunksize or max(1, len(items) // (procs * 8)), 2000)
    with ctxm.Pool(procs) as p:
        return p.map(fn, items, chunk)
