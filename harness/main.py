import argparse, importlib, os, sys, traceback
from .common import Ctx, Report, MachineryError


def main():
    ap = argparse.ArgumentParser()
    ap.add_argument("prop")
    ap.add_argument("--tier", default=os.environ.get("VERIF_TIER") or "quick")
    ap.add_argument("--replay")
    a = ap.parse_args()
    tier = a.tier if a.tier in ("quick", "thorough") else "quick"
    try:
        seed = int(os.environ.get("VERIF_SEED", "0") or 0)
    except ValueError:
        seed = 0
    prop = a.prop.upper()
    ctx = Ctx(prop, tier, seed)
    try:
        mod = importlib.import_module("harness.props." + prop.lower())
        rep = Report(ctx)
        if a.replay:
            rc = mod.replay(ctx, rep, a.replay)
        else:
            mod.run(ctx, rep)
            rc = rep.finish()
    except Exception:
        traceback.print_exc()
        print("MACHINERY-FAILURE property=%s (exit 2; not a verdict)" % prop)
        rc = 2
    finally:
        ctx.cleanup()
    sys.exit(rc)


main()
