------------------------------- MODULE MC_Class -------------------------------
(* Enumerates token texts for the classification property (C17): every string  *)
(* of length 1..MaxLen over the value alphabet.  Prints each text with its      *)
(* class, name-capability and quoting requirement in every dialect, and checks  *)
(* on the model that the classification is total and that the derived           *)
(* predicates are consistent with it.                                           *)
EXTENDS PvlValues, Json
CONSTANTS MaxLen, Emit
SigmaV == {49, 54, 45, 43, 46, 58, 35, 101, 84, 90, 95, 97, 39}    \* 1 6 - + . : # e T Z _ a '
VARIABLES text
Init == text = <<>>
Next == Len(text) < MaxLen /\ \E c \in SigmaV : text' = Append(text, c)
Spec == Init /\ [][Next]_text
Info(d) == [c |-> Classify(d, text).c, name |-> NameCapable(d, text), quote |-> MustQuote(d, text)]
EmitCase == (Emit /\ text # <<>>) => PrintT(ToJson([text |-> text, o |-> [d \in Dialects |-> Info(d)]]))
AllClasses == ValueClasses \cup {"kw", "nav", "unspec"}
ClassTotal == \A d \in Dialects : Classify(d, text).c \in AllClasses
(* a text that is a number or a date/time is never name-capable; name-capable values are strings or keywords *)
NumbersAreNotNames == \A d \in Dialects :
    Classify(d, text).c \in {"based", "int", "real", "date", "time", "datetime", "leap"} => ~NameCapable(d, text)
(* what need not be quoted denotes itself *)
UnquotedDenotesItself == \A d \in Dialects : ~MustQuote(d, text) => Classify(d, text).v = N("str", text, <<>>)
=============================================================================
