SPECIFICATION TSpec
INVARIANT Verdict
CHECK_DEADLOCK FALSE
