SPECIFICATION DSpec
CONSTANT MaxObjs = 3
CONSTANT MaxItems = 2
CONSTANT MaxMut = 0
CONSTANT RootClasses = {"PVLModule"}
CONSTANT MechSet = {}
CONSTANT Emit = FALSE
CONSTANT AtomVals = {"x"}
CONSTANT ChildClasses = {"PVLGroup", "PVLObject"}
CONSTANT MutNames = {}
CONSTANT Impl = TRUE
CONSTANT ScriptMode = "pds3"
CONSTANT ImplVersion = "replace"
PROPERTY DumpPure
CHECK_DEADLOCK FALSE
