SPECIFICATION Spec
CONSTANT MaxLen = 5
CONSTANT Version = "fixed"
INVARIANT OnlyDocumented
INVARIANT EmitDone
CHECK_DEADLOCK FALSE
