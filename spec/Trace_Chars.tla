------------------------------ MODULE Trace_Chars ------------------------------
(* Judges (1) the ranges of char_allowed() recorded over all 1 114 112 code       *)
(* points: every code point of a logged range must have the logged flag in the    *)
(* reference table; (2) the outcome of loading a text with a code point placed    *)
(* at some position: LexerError with mutually consistent pos / lineno / colno     *)
(* exactly when the reference rejects the text at a disallowed character.         *)
EXTENDS PvlLoader, Json, IOUtils
Events == JsonDeserialize(IOEnv.TRACE_FILE)
VARIABLES i
Init == i \in 1..Len(Events)
Next == FALSE /\ i' = i
Spec == Init /\ [][Next]_i
E == Events[i]
F(name, ok) == IF ok THEN <<>> ELSE <<name>>

RECURSIVE BackToWs(_, _)        \* 0-based start of the run of non-white-space characters that ends before offset p
BackToWs(t, p) == IF p = 0 \/ t[p] \in WS THEN p ELSE BackToWs(t, p - 1)
ColOf(t, p) == LET S0 == {h \in 1..p : t[h] = 10} IN p - (IF S0 = {} THEN -1 ELSE (CHOOSE h \in S0 : \A g \in S0 : g <= h) - 1)

RangeFails(e) == F("table", \A c \in e.lo..e.hi : Allowed(e.d, c) = e.allowed)
LoadFails(e) ==
  LET o == Load(e.d, e.text)
      bad == o.verdict = "reject" /\ o.kind = "lex" /\ o.why = "char"
  IN IF o.verdict = "unspec" THEN <<>>
     ELSE IF bad THEN
          F("not-LexerError", e.kind = "raise" /\ e.type = "LexerError")
       \o (IF e.kind = "raise" /\ e.type = "LexerError" THEN
             F("pos-range", e.pos >= 0 /\ e.pos <= Len(e.text))
          \o F("pos-near-character", e.pos <= o.pos + 1 /\ e.pos >= (IF o.b < o.pos THEN o.b ELSE BackToWs(e.text, o.pos)))
          \o F("lineno", e.pos >= 0 /\ e.pos <= Len(e.text) => e.lineno = LineOf(e.text, e.pos))
          \o F("colno", e.pos >= 0 /\ e.pos <= Len(e.text) => e.colno = ColOf(e.text, e.pos))
          ELSE <<>>)
     ELSE IF o.verdict = "accept" THEN F("well-formed-text-not-loaded", e.kind = "module")
     ELSE F("ill-formed-text-loaded", e.kind = "raise" /\ e.type \in {"LexerError", "ParseError"})
(* for loads the reference outcome is printed too: the harness compares the returned tree with it after numeral
   canonicalisation ("returns every character unchanged inside strings") *)
Verdict == PrintT(ToJson(IF E.ev = "range" THEN [i |-> i, fails |-> RangeFails(E)]
                         ELSE [i |-> i, fails |-> LoadFails(E), o |-> Load(E.d, E.text)]))
=============================================================================
