-------------------------------- MODULE Heap --------------------------------
(***************************************************************************)
(* Containers as heap objects (C11, C13).                                   *)
(* An object is [cls, items]; items is a list of <<key, val>> where val is  *)
(* an atom [r |-> 0, s |-> text] or a reference [r |-> id, s |-> ""].       *)
(* The heap is a sequence of objects; object ids are positions.             *)
(*                                                                         *)
(* Actions: AddAtom/AddChild (build a nested container from an empty root), *)
(* Copy(mech) with the four mechanisms of the property, Mutate(side, path,  *)
(* op) through the container's own operations (MultiDict!Apply), Dump(enc). *)
(* Shallow mechanisms share nested objects (that is what `type(m)(m)`       *)
(* does); the property promises independence at top level only for them,    *)
(* at every level for deepcopy and pickle.                                  *)
(***************************************************************************)
EXTENDS MultiDict

Atom(s) == [r |-> 0, s |-> s]
Ref(i)  == [r |-> i, s |-> ""]
Classes == {"PVLModule", "PVLGroup", "PVLObject", "OrderedMultiDict"}
Shallow == {"copy_method", "copy_copy"}
Deep    == {"deepcopy", "pickle0", "pickle1", "pickle2", "pickle3", "pickle4", "pickle5"}
Mechs   == Shallow \cup Deep
Encoders == {"PVL", "ODL", "PDS3", "ISIS", "DEFAULT"}      \* DEFAULT: pvl.dumps(m) with no encoder argument (a PDS3 encoder)

(* tree projection of the object graph below id (the graph is a forest by construction) *)
RECURSIVE Proj(_, _)
Proj(h, id) ==
   [cls |-> h[id].cls, s |-> "",
    items |-> [j \in 1..Len(h[id].items) |->
                 LET p == h[id].items[j] IN
                 << p[1], IF p[2].r = 0 THEN [cls |-> "atom", s |-> p[2].s, items |-> <<>>]
                          ELSE Proj(h, p[2].r) >> ]]

(* object reached from `id` by following item indexes (1-based) *)
RECURSIVE Resolve(_, _, _)
Resolve(h, id, path) ==
   IF path = <<>> THEN id
   ELSE LET its == h[id].items IN
        IF path[1] \in 1..Len(its) /\ its[path[1]][2].r # 0
        THEN Resolve(h, its[path[1]][2].r, Tail(path)) ELSE 0

(* all index paths (depth <= 2) from id to container objects *)
ChildIdx(h, id) == { j \in 1..Len(h[id].items) : h[id].items[j][2].r # 0 }
Paths(h, id) ==
   { <<>> } \cup { <<j>> : j \in ChildIdx(h, id) }
            \cup UNION { { <<j, g>> : g \in ChildIdx(h, h[id].items[j][2].r) } : j \in ChildIdx(h, id) }

(* deep clone: duplicate every object with ids shifted by n *)
Shift(v, n) == IF v.r = 0 THEN v ELSE Ref(v.r + n)
CloneAll(h) == LET n == Len(h) IN
   h \o [i \in 1..n |-> [cls |-> h[i].cls,
                         items |-> [j \in 1..Len(h[i].items) |->
                                      <<h[i].items[j][1], Shift(h[i].items[j][2], n)>>]]]

(* ---- what a dump may do to its argument ---- *)
(* same tree, except that nodes of class PVLGroup may have become PVLObject (PDS3 only) *)
RECURSIVE SameUpToRelabel(_, _, _)
SameUpToRelabel(a, b, allow) ==
   /\ \/ a.cls = b.cls
      \/ allow /\ a.cls = "PVLGroup" /\ b.cls = "PVLObject"
   /\ a.s = b.s
   /\ Len(a.items) = Len(b.items)
   /\ \A j \in 1..Len(a.items) :
         /\ a.items[j][1] = b.items[j][1]
         /\ SameUpToRelabel(a.items[j][2], b.items[j][2], allow)
DumpAllowed(enc, pre, post) == SameUpToRelabel(pre, post, enc \in {"PDS3", "DEFAULT"})
=============================================================================
