--------------------------- MODULE Trace_MultiDict ---------------------------
(* Validates operation histories recorded on real pvl containers against the  *)
(* reference MultiDict.  The trace spec is total: every event is consumed;    *)
(* each event is judged by four clauses (result, resulting list, observers,   *)
(* equality probes) and the spec state is then re-synchronised to the logged  *)
(* list so that one early mismatch does not hide later ones.  One JSON        *)
(* verdict line per trace.                                                    *)
EXTENDS MultiDict, Json, IOUtils
Traces == JsonDeserialize(IOEnv.TRACE_FILE)

VARIABLES tid, l, items, fails
vars == <<tid, l, items, fails>>

Ev == Traces[tid].ev[l]
TInit == /\ tid \in 1..Len(Traces) /\ l = 1 /\ items = <<>> /\ fails = <<>>

Judge(e) ==
  LET r    == Apply(items, e.o)
      post == e.post
      ob   == Obs(post, DOMAIN e.obs.key, DOMAIN e.obs.val)
      c1 == IF r.ret = e.ret THEN <<>> ELSE << [l |-> l, clause |-> "ret", op |-> e.o.op] >>
      c2 == IF r.items = post THEN <<>> ELSE << [l |-> l, clause |-> "post", op |-> e.o.op] >>
      c3 == IF ob = e.obs THEN <<>> ELSE << [l |-> l, clause |-> "obs", op |-> e.o.op] >>
      c4 == IF \A j \in 1..Len(e.eq) : e.eq[j].r = (e.eq[j].l = post) THEN <<>>
            ELSE << [l |-> l, clause |-> "eq", op |-> e.o.op] >>
  IN c1 \o c2 \o c3 \o c4

Step == /\ l <= Len(Traces[tid].ev)
        /\ Ev.o.op \in OpNames
        /\ l' = l + 1 /\ tid' = tid
        /\ fails' = fails \o Judge(Ev)
        /\ items' = Ev.post

TSpec == TInit /\ [][Step]_vars
Finished == l = Len(Traces[tid].ev) + 1
Verdict == Finished => PrintT(ToJson([tid |-> tid, n |-> l - 1, fails |-> fails]))
=============================================================================
