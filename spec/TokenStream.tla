------------------------------ MODULE TokenStream ------------------------------
(***************************************************************************)
(* An implementation-shaped model of the protocol between pvl's lexer      *)
(* (pvl/lexer.py: lexer(), a Python generator) and its only client, the    *)
(* recursive-descent parser (pvl/parser.py).  The generator offers         *)
(*    next()      the next token,                                          *)
(*    send(t)     "put t back": the construction                           *)
(*                    t = yield tok                                        *)
(*                    while t is not None:                                 *)
(*                        yield None                                       *)
(*                        t = yield t                                      *)
(*                makes send() return None and the following next() return *)
(*                t again,                                                 *)
(*    throw(e)    raise e at the suspended yield; the lexer's              *)
(*                `except ValueError` turns it into a LexerError that      *)
(*                carries the position.                                    *)
(* The put-back is a ONE-slot buffer and works only if the client sticks   *)
(* to a discipline; the model makes that explicit.  Generator states:      *)
(*    new      not started                                                 *)
(*    fresh    suspended at `t = yield tok` (a fresh token was delivered)  *)
(*    hold     suspended at `yield None`    (a put-back token is held)     *)
(*    redeliv  suspended at `t = yield t`   (the held token was delivered) *)
(*    done     finished (StopIteration, error, or after throw())           *)
(* Fresh tokens are numbered 1..N in lexing order; Ending says whether the *)
(* text ends normally ("stop") or the lexer raises a LexerError of its own *)
(* after the N-th token ("error").                                         *)
(*                                                                         *)
(* TLC checks, for every client behaviour up to MaxOps calls,              *)
(*    NetStream    what the client holds, plus the slot, is exactly the    *)
(*                 sequence of fresh tokens delivered so far: nothing is   *)
(*                 lost, duplicated or reordered,                          *)
(*    OnlyLexerErrors  no TypeError and no raw thrown exception comes back *)
(* under Discipline = "strict" (send only the token received last, never   *)
(* while one is held, never before the first next() or after the end;     *)
(* next() after the end is harmless), and exhibits a lost token under      *)
(* Discipline = "lastonly" (two sends in a row: the second value is        *)
(* discarded and the first is yielded                                      *)
(* as the return value of send(), which the parser ignores) and a          *)
(* reordering under Discipline = "free".                                   *)
(* GenStep is reused by spec/Trace_TokenStream.tla to validate the calls   *)
(* the real parser makes on the real generator.                            *)
(***************************************************************************)
EXTENDS Integers, Sequences, TLC
CONSTANTS N, Ending, Discipline, MaxOps

None == 0           \* send() returned None
Stop == 0 - 1       \* StopIteration
LexErr == 0 - 2     \* LexerError (the lexer's own, or a thrown ValueError converted)
TypeErr == 0 - 3    \* "can't send non-None value to a just-started generator"
Raw == 0 - 4        \* the thrown exception itself comes back (generator not started or already finished)

GenInit == [st |-> "new", i |-> 1, held |-> 0, why |-> ""]      \* why: how the stream ended ("stop", "error", "thrown")

(* the generator's reaction to one call: <<state', returned value>> *)
GenStepOn(n, ending, g, op, a) ==
  CASE op = "next" ->
         IF g.st \in {"new", "fresh", "redeliv"} THEN
              IF g.i <= n THEN << [g EXCEPT !.st = "fresh", !.i = g.i + 1], g.i >>
              ELSE << [g EXCEPT !.st = "done", !.why = ending], IF ending = "error" THEN LexErr ELSE Stop >>
         ELSE IF g.st = "hold" THEN << [g EXCEPT !.st = "redeliv"], g.held >>
         ELSE << g, Stop >>
    [] op = "send" ->
         IF g.st = "new" THEN << g, TypeErr >>
         ELSE IF g.st \in {"fresh", "redeliv"} THEN << [g EXCEPT !.st = "hold", !.held = a], None >>
         ELSE IF g.st = "hold" THEN << [g EXCEPT !.st = "redeliv"], g.held >>     \* a is discarded
         ELSE << g, Stop >>
    [] op = "throw" ->
         IF g.st \in {"fresh", "hold", "redeliv"} THEN << [g EXCEPT !.st = "done", !.why = "thrown"], LexErr >>
         ELSE << [g EXCEPT !.st = "done", !.why = IF g.why = "" THEN "thrown" ELSE g.why], Raw >>
GenStep(g, op, a) == GenStepOn(N, Ending, g, op, a)

Last(s) == s[Len(s)]
Front(s) == SubSeq(s, 1, Len(s) - 1)
(* remove the last occurrence of a from s (s unchanged if absent) *)
RemoveLast(s, a) ==
  IF \E k \in 1..Len(s) : s[k] = a
  THEN LET k == CHOOSE j \in 1..Len(s) : s[j] = a /\ \A m \in (j + 1)..Len(s) : s[m] # a
       IN SubSeq(s, 1, k - 1) \o SubSeq(s, k + 1, Len(s))
  ELSE s

VARIABLES g,      \* generator state
          hand,   \* tokens the client currently holds, in the order received (ghost)
          ret,    \* value returned by the last call
          ops     \* number of calls made
vars == <<g, hand, ret, ops>>

Init == g = GenInit /\ hand = <<>> /\ ret = None /\ ops = 0

CallNext == /\ ops < MaxOps
            /\ LET r == GenStep(g, "next", 0) IN
                 /\ g' = r[1] /\ ret' = r[2] /\ ops' = ops + 1
                 /\ hand' = IF r[2] >= 1 THEN Append(hand, r[2]) ELSE hand

CallSend(a) == /\ ops < MaxOps
               /\ CASE Discipline = "strict" -> g.st \in {"fresh", "redeliv"} /\ hand # <<>> /\ a = Last(hand)
                    [] Discipline = "lastonly" -> hand # <<>> /\ a = Last(hand)     \* ... but also while a token is held
                    [] OTHER -> \E k \in 1..Len(hand) : hand[k] = a
               /\ LET r == GenStep(g, "send", a) IN
                    /\ g' = r[1] /\ ret' = r[2] /\ ops' = ops + 1
                    /\ hand' = RemoveLast(hand, a)      \* the client gave it away; send()'s return value is ignored

CallThrow == /\ ops < MaxOps
             /\ Discipline = "strict" => g.st \in {"fresh", "hold", "redeliv"}
             /\ LET r == GenStep(g, "throw", 0) IN
                  g' = r[1] /\ ret' = r[2] /\ ops' = ops + 1 /\ hand' = hand

Next == CallNext \/ (\E a \in 1..N : CallSend(a)) \/ CallThrow
Spec == Init /\ [][Next]_vars

Slot == IF g.st = "hold" THEN << g.held >> ELSE <<>>
Thrown == g.why \in {"error", "thrown"}      \* the stream was abandoned by throw() or by the lexer's own error
NetStream == Thrown \/ hand \o Slot = [k \in 1..(g.i - 1) |-> k]
OnlyLexerErrors == ret \notin {TypeErr, Raw}
SendReturnsNone == [][\A a \in 1..N : CallSend(a) => ret' = None]_vars
TypeOK == g.st \in {"new", "fresh", "hold", "redeliv", "done"} /\ g.i \in 1..(N + 1) /\ g.held \in 0..N
=============================================================================
