------------------------------ MODULE ParserLoop ------------------------------
(***************************************************************************)
(* An implementation-shaped model of the top-level loop of pvl's recursive  *)
(* descent parser (pvl/parser.py: PVLParser.parse_module and                *)
(* OmniParser.parse_module_post_hook), at the granularity of the token      *)
(* generator's protocol: next(), send() (one-slot put-back) and throw().    *)
(* It exists for property C06 (termination, documented exceptions): TLC     *)
(* checks, for EVERY finite token input up to a length bound,               *)
(*    Termination  ==  <>(pc = "done")          (under weak fairness)       *)
(*    OnlyDocumented == exc \in {"", "LexerError", "ParseError"}            *)
(* The constant Version selects the code before the repairs ("prefix":      *)
(* the hook answers "keep parsing" without having consumed anything, a      *)
(* name without '=' is dropped, next() may raise StopIteration) or after    *)
(* them ("fixed").  On "prefix" TLC exhibits the non-progress cycle of      *)
(* `a = 1 = ...` as a liveness counterexample and the StopIteration escape  *)
(* as a safety counterexample; on "fixed" both properties hold.             *)
(*                                                                         *)
(* Tokens are abstract: "W" name-capable word, "V" other simple value,      *)
(* "=" , "E" the END keyword, "X" anything else.  Blocks and collections    *)
(* are not modelled (the reference grammar covers them); the interest here  *)
(* is the control skeleton: try productions in order, swallow ValueError,   *)
(* ask the hook, loop.                                                      *)
(***************************************************************************)
EXTENDS Naturals, Sequences, TLC, Json
CONSTANTS MaxLen, Version
Kinds == {"W", "V", "=", "E", "X"}

VARIABLES inp,      \* the token input (chosen in Init)
          i,        \* index of the next fresh token
          slot,     \* the put-back slot of the generator ("" = empty)
          dead,     \* the generator has been finished by throw()
          pc,       \* control point
          items,    \* the module built so far: sequence of [k, v] with v in {"W", "V", "empty"}
          progress, \* `parsing` flag of parse_module
          name,     \* parameter name consumed by the assignment production
          exc       \* exception that ended the parse ("" = none)
vars == <<inp, i, slot, dead, pc, items, progress, name, exc>>

Inputs == UNION { [1..n -> Kinds] : n \in 0..MaxLen }
Init == /\ inp \in Inputs /\ i = 1 /\ slot = "" /\ dead = FALSE /\ pc = "top"
        /\ items = <<>> /\ progress = FALSE /\ name = "" /\ exc = ""

AtEnd == slot = "" /\ (dead \/ i > Len(inp))
Peek == IF slot # "" THEN slot ELSE inp[i]                 \* only when ~AtEnd
(* next(tokens): consume *)
Consume == /\ slot' = "" /\ i' = IF slot # "" THEN i ELSE i + 1
(* tokens.send(t): put back (the token just consumed) *)
PutBack(t) == slot' = t
Raise(e) == pc' = "done" /\ exc' = e
Keep == UNCHANGED <<inp, dead>>

(* top of the while loop: parsing = False, then try the productions in order *)
Top == /\ pc = "top" /\ pc' = "agg" /\ progress' = FALSE /\ UNCHANGED <<inp, i, slot, dead, items, name, exc>>

(* parse_aggregation_block: first token is not a begin keyword here -> put back, ValueError (swallowed) *)
Agg == /\ pc = "agg" /\ pc' = "asg" /\ UNCHANGED <<inp, i, slot, dead, items, progress, name, exc>>

(* parse_assignment_statement *)
Asg == /\ pc = "asg" /\ Keep /\ UNCHANGED <<items, progress, exc>>
       /\ IF AtEnd THEN pc' = "end" /\ UNCHANGED <<i, slot, name>>          \* "ran out of tokens" -> ValueError, swallowed
          ELSE IF Peek = "W" THEN Consume /\ name' = "W" /\ pc' = "eq"
          ELSE pc' = "end" /\ UNCHANGED <<i, slot, name>>                   \* put back, ValueError, swallowed
Eq == /\ pc = "eq" /\ UNCHANGED <<inp, items, progress, name>>
      /\ IF AtEnd THEN Raise("ParseError") /\ UNCHANGED <<i, slot, dead>>   \* 'Expecting "=", but ran out of tokens'
         ELSE IF Peek = "=" THEN Consume /\ pc' = "val" /\ UNCHANGED <<dead, exc>>
         ELSE IF Version = "prefix"
              THEN pc' = "end" /\ UNCHANGED <<i, slot, dead, exc>>          \* ValueError after the name was consumed: swallowed, name lost
              ELSE Raise("LexerError") /\ dead' = TRUE /\ UNCHANGED <<i, slot>>   \* tokens.throw()
Val == /\ pc = "val" /\ UNCHANGED <<inp, name>>
       /\ IF AtEnd THEN                                                     \* StopIteration -> ParseError(token) -> Omni: empty value
               items' = Append(items, [k |-> name, v |-> "empty"]) /\ progress' = TRUE /\ pc' = "agg2" /\ UNCHANGED <<i, slot, dead, exc>>
          ELSE IF Peek \in {"W", "V"} THEN
               Consume /\ items' = Append(items, [k |-> name, v |-> Peek]) /\ progress' = TRUE /\ pc' = "agg2" /\ UNCHANGED <<dead, exc>>
          ELSE IF Peek = "E" THEN                                           \* value hook: reserved word -> empty value, token put back
               items' = Append(items, [k |-> name, v |-> "empty"]) /\ progress' = TRUE /\ pc' = "agg2" /\ UNCHANGED <<i, slot, dead, exc>>
          ELSE Raise("LexerError") /\ dead' = TRUE /\ UNCHANGED <<i, slot, items, progress>>
(* after a successful assignment the for loop goes on to parse_end_statement *)
Agg2 == /\ pc = "agg2" /\ pc' = "end" /\ UNCHANGED <<inp, i, slot, dead, items, progress, name, exc>>

(* parse_end_statement *)
End == /\ pc = "end" /\ Keep /\ UNCHANGED <<items, progress, name>>
       /\ IF AtEnd THEN pc' = "done" /\ UNCHANGED <<i, slot, exc>>          \* StopIteration is passed: returns None -> return m
          ELSE IF Peek = "E" THEN Consume /\ pc' = "done" /\ UNCHANGED exc
          ELSE pc' = "hook" /\ UNCHANGED <<i, slot, exc>>                   \* put back, ValueError swallowed

(* OmniParser.parse_module_post_hook *)
Hook == /\ pc = "hook" /\ UNCHANGED <<inp, name>>
        /\ IF AtEnd THEN pc' = "done" /\ UNCHANGED <<i, slot, dead, items, progress, exc>>     \* out of tokens: return module, False
           ELSE IF Peek = "=" /\ items # <<>> THEN
                IF items[Len(items)].v = "W" THEN                          \* previous value is really the next parameter name
                     /\ Consume /\ dead' = dead /\ exc' = exc
                     /\ items' = [items EXCEPT ![Len(items)].v = "empty"]
                     /\ name' = name /\ progress' = TRUE /\ pc' = "hookval"
                ELSE IF Version = "prefix"
                     THEN pc' = "bottomcheck" /\ progress' = TRUE /\ UNCHANGED <<i, slot, dead, items, exc>>   \* put back; "keep parsing" (!)
                     ELSE pc' = "bottomcheck" /\ UNCHANGED <<i, slot, dead, items, progress, exc>>             \* put back; raise -> ignored
           ELSE pc' = "bottomcheck" /\ UNCHANGED <<i, slot, dead, items, progress, exc>>         \* put back; raise -> ignored
HookVal == /\ pc = "hookval" /\ UNCHANGED <<inp, name, progress>>
           /\ IF AtEnd THEN items' = Append(items, [k |-> "W", v |-> "empty"]) /\ pc' = "done" /\ UNCHANGED <<i, slot, dead, exc>>
              ELSE IF Peek \in {"W", "V"} THEN Consume /\ items' = Append(items, [k |-> "W", v |-> Peek]) /\ pc' = "bottomcheck" /\ UNCHANGED <<dead, exc>>
              ELSE IF Peek = "E" THEN items' = Append(items, [k |-> "W", v |-> "empty"]) /\ pc' = "bottomcheck" /\ UNCHANGED <<i, slot, dead, exc>>
              ELSE Raise("LexerError") /\ dead' = TRUE /\ UNCHANGED <<i, slot, items>>
(* bottom of the while loop *)
BottomCheck == /\ pc = "bottomcheck" /\ UNCHANGED <<inp, i, slot, dead, items, progress, name, exc>>
               /\ pc' = IF progress THEN "top" ELSE "bottom"
Bottom == /\ pc = "bottom" /\ UNCHANGED <<inp, items, progress, name>>
          /\ IF AtEnd THEN (IF Version = "prefix" THEN Raise("StopIteration") ELSE Raise("ParseError")) /\ UNCHANGED <<i, slot, dead>>
             ELSE Raise("LexerError") /\ dead' = TRUE /\ Consume            \* t = next(tokens); tokens.throw(...)

Next == Top \/ Agg \/ Asg \/ Eq \/ Val \/ Agg2 \/ End \/ Hook \/ HookVal \/ BottomCheck \/ Bottom
Spec == Init /\ [][Next]_vars /\ WF_vars(Next)

Termination == <>(pc = "done")
OnlyDocumented == exc \in {"", "LexerError", "ParseError"}
(* a module is returned only if every token was consumed or the END statement was read:
   nothing in front of END is silently skipped *)
NothingSkipped == (pc = "done" /\ exc = "") => (AtEnd \/ (i > 1 /\ inp[i - 1] = "E"))
EmitDone == pc = "done" => PrintT(ToJson([inp |-> inp, exc |-> exc, items |-> items]))
=============================================================================
