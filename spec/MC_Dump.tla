------------------------------- MODULE MC_Dump -------------------------------
(* C13 on the model.  Builds a module (same builder as MC_Heap), then runs a  *)
(* short script of Dump(enc) / Mutate steps.                                  *)
(*   Impl = FALSE: the reference Dump leaves the heap alone; every behaviour  *)
(*                 is printed as a case for the real encoders.                *)
(*   Impl = TRUE : Dump("PDS3") is the transcription of                       *)
(*                 PDSLabelEncoder.encode (`module[k] = objcls(v)`, i.e. the   *)
(*                 container's SetItem, which also drops later items with the  *)
(*                 same key) when ImplVersion = "setitem" - TLC then exhibits  *)
(*                 the modules on which it violates DumpPure - or of the      *)
(*                 repaired code (ImplVersion = "replace": the item at the    *)
(*                 group's position is replaced), which satisfies DumpPure.   *)
EXTENDS MC_Heap
CONSTANTS Impl, ScriptMode, ImplVersion
Scripts == IF ScriptMode = "pds3" THEN { <<"PDS3">> }
           ELSE { <<e, e, e>> : e \in Encoders } \cup { <<e, "mutate", e>> : e \in Encoders }
                \cup { <<"PDS3", e, "PDS3">> : e \in Encoders \ {"PDS3"} } \cup { <<e, "other", e>> : e \in Encoders }
VARIABLES script, done
dvars == <<heap, phase, cp, mech, tree0, muts, script, done>>

DInit == Init /\ script \in Scripts /\ done = 0

IsGroupRef(v) == v.r # 0 /\ heap[v.r].cls = "PVLGroup"
IsObjRef(v)   == v.r # 0 /\ heap[v.r].cls # "PVLGroup"
HasChildren(id) == \E j \in 1..Len(heap[id].items) : heap[id].items[j][2].r # 0
DupKeys(id) == \E i, j \in 1..Len(heap[id].items) : i # j /\ heap[id].items[i][1] = heap[id].items[j][1]
IsPDSGroup(id) == ~HasChildren(id) /\ ~DupKeys(id)
TopItems == heap[root].items
NeedsConversion == (\E j \in 1..Len(TopItems) : IsGroupRef(TopItems[j][2]))
                   /\ ~(\E j \in 1..Len(TopItems) : IsObjRef(TopItems[j][2]))
ConvIdx == LET bad == { j \in 1..Len(TopItems) : IsGroupRef(TopItems[j][2]) /\ ~IsPDSGroup(TopItems[j][2].r) }
               grp == { j \in 1..Len(TopItems) : IsGroupRef(TopItems[j][2]) }
               pick(S) == CHOOSE j \in S : \A h \in S : j <= h
           IN IF bad # {} THEN pick(bad) ELSE pick(grp)

DumpImplPDS3 ==
   IF NeedsConversion
   THEN LET j == ConvIdx  k == TopItems[j][1]  g == TopItems[j][2].r
            newobj == [cls |-> "PVLObject", items |-> heap[g].items]
            h1 == Append(heap, newobj)
        IN heap' = IF ImplVersion = "setitem"       \* before the fix: module[k] = objcls(v)
                   THEN [h1 EXCEPT ![root].items = SetItemL(TopItems, k, Ref(Len(h1)))]
                   ELSE [h1 EXCEPT ![root].items = [TopItems EXCEPT ![j] = <<k, Ref(Len(h1))>>]]
   ELSE heap' = heap

DumpStep ==
   /\ done < Len(script) /\ script[done + 1] # "mutate"
   /\ phase' = "dumping" /\ done' = done + 1
   /\ IF Impl /\ script[done + 1] \in {"PDS3", "DEFAULT"} THEN DumpImplPDS3 ELSE heap' = heap
   /\ UNCHANGED <<cp, mech, tree0, muts, script>>
MutStep ==
   /\ done < Len(script) /\ script[done + 1] = "mutate"
   /\ phase' = "dumping" /\ done' = done + 1
   /\ heap' = [heap EXCEPT ![root].items = Append(@, <<"a", Atom("m")>>)]
   /\ UNCHANGED <<cp, mech, tree0, muts, script>>
DNext == \/ Build /\ done = 0 /\ UNCHANGED <<script, done>>
         \/ DumpStep \/ MutStep
DSpec == DInit /\ [][DNext]_dvars

(* a dump never adds, removes, reorders or alters items; PDS3 may relabel groups as objects *)
DumpPure == [][ (done' = done + 1 /\ script[done + 1] \notin {"mutate", "other"}) =>
                 DumpAllowed(script[done + 1], Proj(heap, root), Proj(heap', root)) ]_dvars
EmitDump == (Emit /\ done = 1 /\ script[1] \notin {"mutate", "other"}) =>
              PrintT(ToJson([tree |-> Proj(heap, root), script |-> script]))
=============================================================================
