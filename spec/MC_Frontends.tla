----------------------------- MODULE MC_Frontends -----------------------------
(* Enumerates the invocations of the command-line tools for C20: every file of  *)
(* a pool alone and every ordered triple (bounded by Triples) for pvl_validate,  *)
(* every (file, format) pair for pvl_translate.                                  *)
EXTENDS Frontends, Json
CONSTANTS NFiles, Triples
VARIABLE inv
Invocations == { [tool |-> "validate", files |-> <<f>>, fmt |-> ""] : f \in 1..NFiles }
          \cup { [tool |-> "validate", files |-> <<f, ((f + 2) % NFiles) + 1, ((f * 7) % NFiles) + 1>>, fmt |-> ""] : f \in 1..Triples }
          \cup { [tool |-> "translate", files |-> <<f>>, fmt |-> fm] : f \in 1..NFiles, fm \in Formats }
Init == inv \in Invocations
Next == FALSE /\ inv' = inv
Spec == Init /\ [][Next]_inv
EmitCase == PrintT(ToJson(inv))
(* every dialect row and every format has an encoder *)
TablesComplete == \A f \in Formats : EncoderOf(f) # "" 
=============================================================================
