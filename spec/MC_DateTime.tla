----------------------------- MODULE MC_DateTime -----------------------------
(* C14.  Enumerates date / time / date-time texts from field values over the   *)
(* boundary product (years, months, days, days of year, hours, minutes,        *)
(* seconds incl. 60, fractions, zone markers), renders each as text and states  *)
(* from the fields alone what the text must denote in each dialect (Expect).    *)
(* TLC checks that the character-level recogniser Classify agrees with Expect   *)
(* (two independent formulations), and prints text + denotation per dialect.    *)
EXTENDS PvlLoader, Json
CONSTANTS Emit, Full

Years == IF Full THEN {1, 999, 1000, 1900, 2000, 2001, 2024, 9999} ELSE {1, 999, 2000, 2001, 9999}
Months == IF Full THEN 1..12 ELSE {1, 2, 12}
DaysS == {1, 28, 29, 30, 31}
Doys == {1, 59, 60, 365, 366}
Hours == {0, 12, 23}
Mins == {0, 59}
Secs == {-1, 0, 59, 60}                       \* -1: seconds not written
Fracs == { <<>>, S("5"), S("005"), S("000005"), S("123"), S("123456"), S("999999") }
Zones == {"none", "Z", "+0", "+1", "-1", "+05:30", "-05:30", "+12", "-12", "+13"}

NoDate == [y |-> 0, m |-> 0, dd |-> 0, j |-> 0]
NoTime == [H |-> -1, M |-> 0, S |-> -1, f |-> <<>>, z |-> "none"]
TimesOf == { [H |-> h, M |-> mi, S |-> s, f |-> f, z |-> z] : h \in Hours, mi \in Mins, s \in Secs, f \in Fracs, z \in Zones }
Times == { t \in TimesOf : (t.f # <<>> => t.S >= 0) }
FewDates == { [y |-> 2001, m |-> 2, dd |-> 28, j |-> 0], [y |-> 2000, m |-> 2, dd |-> 29, j |-> 0], [y |-> 1, m |-> 1, dd |-> 1, j |-> 0],
              [y |-> 999, m |-> 12, dd |-> 31, j |-> 0], [y |-> 2001, m |-> 0, dd |-> 0, j |-> 365], [y |-> 2000, m |-> 0, dd |-> 0, j |-> 366] }
FewTimes == { t \in Times : t.H # 12 /\ (t.M = 59 \/ t.S = 60) }
Cases ==  { [form |-> "ymd", d |-> [y |-> y, m |-> m, dd |-> dd, j |-> 0], t |-> NoTime] : y \in Years, m \in Months, dd \in DaysS }
     \cup { [form |-> "yj", d |-> [y |-> y, m |-> 0, dd |-> 0, j |-> j], t |-> NoTime] : y \in Years, j \in Doys }
     \cup { [form |-> "time", d |-> NoDate, t |-> t] : t \in Times }
     \cup { [form |-> "datetime", d |-> d, t |-> t] : d \in FewDates, t \in FewTimes }

VARIABLE c
Init == c \in Cases
Next == FALSE /\ c' = c
Spec == Init /\ [][Next]_c

RenderDate(d) == IF d.j > 0 THEN Pad(d.y, 4) \o <<45>> \o Pad(d.j, 3)
                 ELSE Pad(d.y, 4) \o <<45>> \o Pad(d.m, 2) \o <<45>> \o Pad(d.dd, 2)
RenderZone(z) == IF z = "none" THEN <<>> ELSE S(z)
RenderTime(t) == Pad(t.H, 2) \o <<58>> \o Pad(t.M, 2)
                 \o (IF t.S >= 0 THEN <<58>> \o Pad(t.S, 2) ELSE <<>>)
                 \o (IF t.f # <<>> THEN <<46>> \o t.f ELSE <<>>) \o RenderZone(t.z)
Render == CASE c.form \in {"ymd", "yj"} -> RenderDate(c.d)
            [] c.form = "time" -> RenderTime(c.t)
            [] OTHER -> RenderDate(c.d) \o <<84>> \o RenderTime(c.t)

(* ---- what the text must denote, stated from the fields ---- *)
DateValid(d) == d.y >= 1 /\ (IF d.j > 0 THEN d.j <= (IF IsLeapYear(d.y) THEN 366 ELSE 365)
                                         ELSE d.dd <= DaysIn(d.y, d.m))
MD(d) == IF d.j > 0 THEN DoyToMD(d.y, 1, d.j) ELSE <<d.m, d.dd>>
OffMinutes(z) == CASE z = "+0" -> 0 [] z = "+1" -> 60 [] z = "-1" -> -60 [] z = "+05:30" -> 330 [] z = "-05:30" -> -330
                   [] z = "+12" -> 720 [] z = "-12" -> -720 [] OTHER -> 9999
IsOffset(z) == z \notin {"none", "Z"}
(* expected kind: "date" "time" "datetime" "leap" or "nav" (not a temporal value) *)
ExpectKind(d) ==
   IF c.form \in {"ymd", "yj"} THEN (IF DateValid(c.d) THEN "date" ELSE "nav")
   ELSE IF c.form = "datetime" /\ ~DateValid(c.d) THEN "nav"
   ELSE IF IsOffset(c.t.z) /\ (~HasOffsets(d) \/ OffMinutes(c.t.z) = 9999) THEN "nav"
   ELSE IF c.t.S = 60 THEN (IF LeapAsText(d) /\ ~IsOffset(c.t.z) THEN "leap" ELSE "nav")
   ELSE IF d = "PDS3" /\ Len(c.t.f) > 3 /\ (\E i \in 4..Len(c.t.f) : c.t.f[i] # 48) THEN "nav"
   ELSE c.form
ExpectFields(d) ==
   LET md == IF c.form = "time" \/ ~DateValid(c.d) THEN <<0, 0>> ELSE MD(c.d)
       zone == IF c.t.z = "Z" THEN 0 ELSE IF IsOffset(c.t.z) THEN OffMinutes(c.t.z) ELSE IF DefaultUTC(d) THEN 0 ELSE Naive
   IN [kind |-> ExpectKind(d), y |-> IF c.form = "time" THEN 0 ELSE c.d.y, m |-> md[1], dd |-> md[2],
       H |-> IF c.t.H < 0 THEN 0 ELSE c.t.H, M |-> c.t.M, S |-> IF c.t.S < 0 THEN 0 ELSE c.t.S,
       us |-> NumVal(Frac6(c.t.f)), zone |-> zone]
TemporalKinds == {"date", "time", "datetime"}
(* the recogniser agrees with the generator *)
ReaderAgrees == \A d \in Dialects :
    LET k == ExpectKind(d)  got == Classify(d, Render) IN
    /\ (k \in TemporalKinds) => (got.c = k /\ TemporalFields(d, Render) = ExpectFields(d))
    /\ (k = "leap") => got.c = "leap"
    /\ (k = "nav") => got.c \in {"unq", "nav", "unspec"}
EmitCase == Emit => PrintT(ToJson([text |-> Render, form |-> c.form,
                 o |-> [d \in Dialects |-> [c |-> Classify(d, Render).c, v |-> Classify(d, Render).v, k |-> ExpectKind(d),
                                          l |-> Load(d, S("T = ") \o Render \o <<10>> \o S("END"))]]]))
(* calendar table for the exhaustive sweep of all days of years 1..9999: one state per year *)
CalendarRow(y) == [y |-> y, leap |-> IsLeapYear(y), months |-> [m \in 1..12 |-> DaysIn(y, m)]]
=============================================================================
