------------------------------- MODULE PvlEntry -------------------------------
(***************************************************************************)
(* C09: the ways of handing label data to the library.  Data is a sequence  *)
(* of bytes.  Every entry point is specified as: take the longest prefix    *)
(* of the bytes that is valid UTF-8, decode it, and load it with the        *)
(* default (OMNI) reference loader - which reads nothing after the END      *)
(* statement.  Hence all entry points agree, and bytes after END never      *)
(* matter.  Dump targets receive exactly the text dumps() returns.          *)
(***************************************************************************)
EXTENDS PvlLoader

(* strict UTF-8: decode bytes from index i; returns the code points of the longest valid prefix *)
Cont(b) == b \in 128..191
RECURSIVE Utf8(_, _)
Utf8(bs, i) ==
   LET n == Len(bs) IN
   IF i > n THEN <<>>
   ELSE LET b == bs[i] IN
   IF b <= 127 THEN <<b>> \o Utf8(bs, i + 1)
   ELSE IF b \in 194..223 /\ i + 1 <= n /\ Cont(bs[i + 1])
        THEN << (b - 192) * 64 + (bs[i + 1] - 128) >> \o Utf8(bs, i + 2)
   ELSE IF b \in 224..239 /\ i + 2 <= n /\ Cont(bs[i + 1]) /\ Cont(bs[i + 2])
           /\ (b = 224 => bs[i + 1] >= 160) /\ (b = 237 => bs[i + 1] <= 159)          \* no overlongs, no surrogates
        THEN << (b - 224) * 4096 + (bs[i + 1] - 128) * 64 + (bs[i + 2] - 128) >> \o Utf8(bs, i + 3)
   ELSE IF b \in 240..244 /\ i + 3 <= n /\ Cont(bs[i + 1]) /\ Cont(bs[i + 2]) /\ Cont(bs[i + 3])
           /\ (b = 240 => bs[i + 1] >= 144) /\ (b = 244 => bs[i + 1] <= 143)
        THEN << (b - 240) * 262144 + (bs[i + 1] - 128) * 4096 + (bs[i + 2] - 128) * 64 + (bs[i + 3] - 128) >> \o Utf8(bs, i + 4)
   ELSE <<>>                                                                          \* undecodable from here on
DecodablePrefix(bs) == Utf8(bs, 1)
WholeDecodable(bs) == LET p == DecodablePrefix(bs) IN
   \* every byte was consumed: count the bytes the code points take
   LET width(c) == IF c <= 127 THEN 1 ELSE IF c <= 2047 THEN 2 ELSE IF c <= 65535 THEN 3 ELSE 4
       RECURSIVE Sum(_)
       Sum(s) == IF s = <<>> THEN 0 ELSE width(s[1]) + Sum(Tail(s))
   IN Sum(p) = Len(bs)

EntryPoints == {"load_str_path", "load_pathlike", "loadu_file_url", "load_text_stream", "load_binary_stream", "loads_str", "loads_bytes"}
NeedsWhole(e) == e \in {"loads_str", "loads_bytes"}        \* the caller can only build the argument from fully decodable data
Read(e, bs) == Load("OMNI", DecodablePrefix(bs))
=============================================================================
