SPECIFICATION Spec
CONSTANT N = 3
CONSTANT Ending = "stop"
CONSTANT Discipline = "lastonly"
CONSTANT MaxOps = 8
INVARIANT NetStream
CHECK_DEADLOCK FALSE
