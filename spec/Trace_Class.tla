------------------------------ MODULE Trace_Class ------------------------------
(* Judges classification records taken from the real library (C17).  One event  *)
(* = one (dialect, token text): the public Token predicates, the outcome of      *)
(* decode_simple_value and what the dialect's encoder does with the text as a    *)
(* Python str.  Clauses are the consistency rules of the property; the last      *)
(* clause compares the library's class with the reference class (reported under  *)
(* C03, it is about the grammar rather than about mutual consistency).           *)
EXTENDS PvlValues, Json, IOUtils
Events == JsonDeserialize(IOEnv.TRACE_FILE)
VARIABLES i
Init == i \in 1..Len(Events)
Next == FALSE /\ i' = i
Spec == Init /\ [][Next]_i
E == Events[i]

CodeClass(e) == IF e.decoded \in {"null", "bool"} THEN "kw"
                ELSE IF e.q THEN "q" ELSE IF e.nd THEN "nd" ELSE IF e.dec THEN "dec" ELSE IF e.dt THEN "dt"
                ELSE IF e.decoded = "str" THEN "unq" ELSE "nav"
RefClass(c) == CASE c \in {"null", "true", "false"} -> "kw" [] c = "quoted" -> "q" [] c = "based" -> "nd"
                 [] c \in {"int", "real"} -> "dec" [] c \in {"date", "time", "datetime", "leap"} -> "dt"
                 [] c = "unq" -> "unq" [] c \in {"kw", "nav"} -> "nav" [] OTHER -> "unspec"
B(x) == IF x THEN 1 ELSE 0
Fails(e) ==
  LET num == e.nd \/ e.dec \/ e.dt
      ref == RefClass(Classify(e.d, e.s).c)
      F(name, ok) == IF ok THEN <<>> ELSE <<name>>
  IN F("total", e.decoded # "!other")
  \o F("simple-value-pred", e.sv <=> (e.decoded \notin {"ValueError", "!other"}))
  \o F("exclusive", B(e.q) + B(e.nd) + B(e.dec) + B(e.dt) <= 1 /\ (e.decoded \in {"null", "bool"} => ~e.q /\ ~num))
  \o F("type", /\ e.q => e.decoded = "str"
               /\ e.nd => e.decoded = "int"
               /\ e.dec => e.decoded \in {"int", "real"}
               /\ e.dt => e.decoded \in {"date", "time", "datetime", "str"})
  \o F("number-as-name", num => ~e.unq /\ ~e.pn)
  \o F("keyword-as-unquoted", e.decoded \in {"null", "bool"} => ~e.unq)
  \o F("unquoted-decodes-to-itself", (e.decoded = "str" /\ ~e.q /\ ~e.dt) => e.dstr = e.s)
  \o F("decoder-unquoted-but-predicate-refuses", (e.decoded = "str" /\ ~e.q /\ ~e.dt /\ ~e.ddt) => e.unq)
  \o F("predicate-disagrees-with-decoder", (e.q <=> e.dq) /\ (e.nd <=> e.dnd) /\ (e.dec <=> e.ddec) /\ (e.dt <=> e.ddt))
  \o F("encoder-unquoted-not-identical", e.enc = "unquoted" => (e.decoded = "str" /\ ~e.q /\ e.dstr = e.s))
  \o F("encoder-quoted-differs", e.enc = "quoted" => e.redec \in {"same", "folded-same"})
  \o F("lexer-token-classified-differently", e.lexdiff = <<>>)        \* the token the lexer yields for this text vs Token(text, grammar, decoder)
  \o F("lexer-splits-a-value", ~e.lexsplit \/ ref \in {"nav", "unspec"})      \* what the reference takes for a value must reach the parser as one token
  \o F("number-or-date-loaded-as-name", num => ~e.nameok)
  \o F("number-or-date-written-as-name", num => ~e.encname)            \* by the dialect's encoder, built with defaults or with only its grammar             \* `<text> = 1` accepted by the dialect's loader with <text> as the name
  \o F("ref-class", ref = "unspec" \/ ref = CodeClass(e))
Verdict == PrintT(ToJson([i |-> i, fails |-> Fails(E), ref |-> Classify(E.d, E.s).c]))
=============================================================================
