SPECIFICATION Spec
CONSTANT D = 3
CONSTANT Mode = "hist"
CONSTANT OpSubset = "full"
CONSTANT MaxLen = 99
INVARIANT EmitHist
CHECK_DEADLOCK FALSE
