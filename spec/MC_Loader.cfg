SPECIFICATION Spec
CONSTANT MaxLen = 3
CONSTANT SigmaName = "core"
CONSTANT Emit = TRUE
CONSTANT DialectSet = {"PVL", "ODL", "PDS3", "ISIS", "OMNI"}
INVARIANT Total
INVARIANT EmitCase
CHECK_DEADLOCK FALSE
