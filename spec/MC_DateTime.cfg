SPECIFICATION Spec
CONSTANT Emit = FALSE
CONSTANT Full = FALSE
INVARIANT ReaderAgrees
INVARIANT EmitCase
CHECK_DEADLOCK FALSE
