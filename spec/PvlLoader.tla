------------------------------ MODULE PvlLoader ------------------------------
(***************************************************************************)
(* The reference loader: the lazy composition of the lexical machine and    *)
(* the push-down grammar.  Elements are scanned one at a time and fed to    *)
(* the grammar; nothing after the END statement is read.  ISIS and OMNI     *)
(* first delete dash continuations from the whole text (a named deviation   *)
(* of the default loader); line numbers always refer to the original text.  *)
(*                                                                         *)
(* Load(d, text) = [verdict, kind, why, pos, tree, errs]                    *)
(*   verdict : "accept" | "reject" | "unspec"                               *)
(*   kind    : "" | "lex" (ill-formed lexically) | "parse" (grammar)        *)
(*   why     : reason / grammar locus;  pos : 0-based offset of the place   *)
(***************************************************************************)
EXTENDS PvlLexer, PvlGrammar

DialectCfg(d) == CASE d = "PVL" -> StrictCfg [] d \in {"ODL", "PDS3"} -> OdlCfg [] OTHER -> OmniCfg

RECURSIVE PyWsEnd(_, _)
PyWsEnd(t, i) == IF i <= Len(t) /\ t[i] \in PyWS THEN PyWsEnd(t, i + 1) ELSE i
(* delete every "-" + (LF | CR | FF) + white space; x[j] = line feeds deleted just before kept character j.
   Formulated over index sets so that it stays linear on long labels. *)
DashStarts(t) == { i \in 1..(Len(t) - 1) : t[i] = 45 /\ t[i + 1] \in {10, 13, 12} }
Prepass(t, i0, pend0) ==
   LET starts == DashStarts(t) IN
   IF starts = {} THEN [t |-> t, x |-> <<>>]
   ELSE LET segEnd == [s \in starts |-> PyWsEnd(t, s + 2)]                         \* deleted: s .. segEnd[s]-1
            Deleted(i) == \E s \in starts : s <= i /\ i < segEnd[s]
            keep == SelectSeq([i \in 1..Len(t) |-> i], LAMBDA i : ~Deleted(i))
            lfBefore(j) == LET lo == IF j = 1 THEN 1 ELSE keep[j - 1] + 1 IN
                           IF lo > keep[j] - 1 THEN 0 ELSE LFsIn(t, lo, keep[j])
        IN [t |-> [j \in 1..Len(keep) |-> t[keep[j]]], x |-> [j \in 1..Len(keep) |-> lfBefore(j)]]

RECURSIVE SumX(_, _, _)
SumX(x, b, e) == IF x = <<>> \/ b >= e THEN 0 ELSE x[b] + SumX(x, b + 1, e)

Out(verdict, kind, why, pos, g) ==
   [verdict |-> verdict, kind |-> kind, why |-> why, pos |-> pos, b |-> pos,
    tree |-> IF verdict = "accept" THEN Result(g) ELSE NoVal,
    errs |-> IF verdict = "accept" THEN g.errs ELSE <<>>]

(* scan from index i; line = 1-based line (in the original text) of index i; g = grammar state *)
RECURSIVE Scan(_, _, _, _, _, _, _)
Scan(d, t, x, i, line, g, open) ==
   LET raw == RawTok(d, t, i) IN
   IF raw.rk = "eof" THEN
        LET ge == GEof(DialectCfg(d), g) IN
        IF open THEN Out("unspec", "", "", i - 1, ge)
        ELSE IF ge.verdict = "accept" THEN Out("accept", "", "", i - 1, ge)
        ELSE Out("reject", "parse", ge.locus, i - 1, ge)
   ELSE IF raw.rk = "bad" THEN
        IF open THEN Out("unspec", "", "", raw.e - 1, g)
        ELSE [Out("reject", "lex", raw.err, (IF raw.err = "char" THEN raw.e ELSE raw.b) - 1, g) EXCEPT !.b = raw.b - 1]
   ELSE LET line2 == line + LFsIn(t, raw.b, raw.e) + SumX(x, raw.b + 1, raw.e + 1) IN
        IF raw.rk = "ws" THEN Scan(d, t, x, raw.e, line2, g, open)
        ELSE LET tk == Tok(d, t, raw, line)
                 g2 == GStep(DialectCfg(d), g, tk)
                 (* NULL / TRUE / FALSE used as a parameter or block name: not reserved by the grammars, never written
                    as names by anything; whether a loader takes them as names is left open *)
                 kwName(w0) == EqFold(w0, "NULL") \/ EqFold(w0, "TRUE") \/ EqFold(w0, "FALSE")
                 newName == g2.verdict = "live" /\ g2.name # NoName /\ g2.name # g.name /\ kwName(g2.name)
                 newBlock == g2.verdict = "live" /\ Len(g2.stk) > 1 /\ g2.phase = "bn" /\ kwName(g2.stk[Len(g2.stk)].name)
                 open2 == open \/ tk.open \/ newName \/ newBlock
             IN IF g2.verdict = "accept" THEN (IF open2 THEN Out("unspec", "", "", raw.b - 1, g2)
                                               ELSE Out("accept", "", "", raw.e - 1, g2))
                ELSE IF g2.verdict = "reject" THEN (IF open2 THEN Out("unspec", "", "", raw.b - 1, g2)
                                                    ELSE Out("reject", "parse", g2.locus, raw.b - 1, g2))
                ELSE Scan(d, t, x, raw.e, line2, g2, open2)

Load(d, text) ==
   IF DashPrepass(d)
   THEN LET p == Prepass(text, 1, 0) IN Scan(d, p.t, p.x, 1, 1 + (IF p.x = <<>> THEN 0 ELSE p.x[1]), GInit, FALSE)
   ELSE Scan(d, text, <<>>, 1, 1, GInit, FALSE)
=============================================================================
