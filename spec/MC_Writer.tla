------------------------------- MODULE MC_Writer -------------------------------
(* Design-level round trip: for every generated module and every dialect, the     *)
(* reference writer either refuses, or writes a text that the reference reader of  *)
(* the same dialect and the default reader read back as the module up to Norm.     *)
(* Also prints (encoder, module, text) so that the real encoders' output can be    *)
(* compared literally with the reference writer's (a binding report, not a         *)
(* verdict).                                                                       *)
EXTENDS MC_Module, PvlWriter
RECURSIVE AsRead(_)      \* the reader writes integers as "radix:digits"
AsRead(n) == N(n.t, IF n.t = "int" THEN S("10:") \o n.s ELSE n.s, [k \in 1..Len(n.xs) |-> AsRead(n.xs[k])])
RoundTrip(E) == LET w == Write(E, m) IN
   IF IsRefuse(w) \/ w = TooLong THEN TRUE
   ELSE LET o == Load(E, w)  od == Load("OMNI", w) IN
        /\ o.verdict = "accept" /\ o.tree = AsRead(NormModule(E, E, m)) /\ o.errs = <<>>
        /\ od.verdict = "accept" /\ od.tree = AsRead(NormModule(E, "OMNI", m)) /\ od.errs = <<>>
WriterRoundTrips == \A E \in Encs : RoundTrip(E)
(* non-vacuity: the writer writes most of the lexicon *)
EmitW == PrintT(ToJson([m |-> m, w |-> [E \in Encs |-> Write(E, m)]]))
=============================================================================
