------------------------------ MODULE MultiDict ------------------------------
(***************************************************************************)
(* Reference model of pvl's ordered multi-dict (pvl/collections.py,        *)
(* OrderedMultiDict and its subclasses PVLModule/PVLGroup/PVLObject):      *)
(* ONE ordered list of (key, value) pairs.  Every documented operation is  *)
(* a function from that list to (new list, result); every observer is a    *)
(* function of that list.  Property C10 says the real container behaves    *)
(* as if it were this list.                                                *)
(*                                                                         *)
(* Keys and values are strings.  An operation is a record                  *)
(*   [op, k, v, i, ps, form]                                               *)
(* op   : name of the operation                                            *)
(* k, v : key / value (or default) argument, "" when unused                *)
(* i    : index or instance argument, 0 when unused                        *)
(* ps   : sequence of pairs argument, <<>> when unused                     *)
(* form : how the pairs are handed over ("kv", "pair", "pairs", "map",     *)
(*        "kw"); irrelevant to the reference, recorded for the replay      *)
(* A result is a record [t, a, b]:                                         *)
(*   none | val(a) | pair(a,b) | exc(a = exception class name)             *)
(***************************************************************************)
EXTENDS Naturals, Integers, Sequences, FiniteSets, TLC

None        == [t |-> "none", a |-> "", b |-> ""]
ValR(x)     == [t |-> "val",  a |-> x,  b |-> ""]
PairR(p)    == [t |-> "pair", a |-> p[1], b |-> p[2]]
Exc(name)   == [t |-> "exc",  a |-> name, b |-> ""]

R(its, ret) == [items |-> its, ret |-> ret]

(* ---------- helpers on a list of pairs ---------- *)
Has(its, k)      == \E j \in 1..Len(its) : its[j][1] = k
Positions(its,k) == SelectSeq([j \in 1..Len(its) |-> j], LAMBDA j : its[j][1] = k)
FirstPos(its, k) == Positions(its, k)[1]
AllVals(its, k)  == [j \in 1..Len(Positions(its,k)) |-> its[Positions(its,k)[j]][2]]
Without(its, k)  == SelectSeq(its, LAMBDA p : p[1] # k)
Min(a, b) == IF a < b THEN a ELSE b
Max(a, b) == IF a > b THEN a ELSE b

(* list.insert index normalisation: negative counts from the end, clamped *)
NormIdx(L, i) == IF i < 0 THEN Max(0, L + i) ELSE Min(i, L)
InsertAt(its, i, ps) ==
    LET n == NormIdx(Len(its), i)
    IN  SubSeq(its, 1, n) \o ps \o SubSeq(its, n + 1, Len(its))

(* assignment: replace the first occurrence, drop later ones; append if absent *)
SetItemL(its, k, v) ==
    IF ~Has(its, k) THEN Append(its, <<k, v>>)
    ELSE LET f == FirstPos(its, k)
         IN  SubSeq(its, 1, f - 1) \o << <<k, v>> >> \o Without(SubSeq(its, f + 1, Len(its)), k)

RECURSIVE UpdateL(_, _)
UpdateL(its, ps) == IF ps = <<>> THEN its
                    ELSE UpdateL(SetItemL(its, ps[1][1], ps[1][2]), Tail(ps))

(* key_index(k, instance): Python list indexing on the positions of k (0-based result) *)
KeyIndex(its, k, inst) ==
    IF ~Has(its, k) THEN -1                          \* KeyError
    ELSE LET P == Positions(its, k) n == Len(P)
         IN  IF inst >= 0 /\ inst < n THEN P[inst + 1] - 1
             ELSE IF inst < 0 /\ -inst <= n THEN P[n + inst + 1] - 1
             ELSE -2                                  \* IndexError
KeyIndexRet(x) == IF x = -1 THEN Exc("KeyError") ELSE Exc("IndexError")

(* ---------- the operations ---------- *)
Apply(its, o) ==
  CASE o.op = "append"    -> R(Append(its, <<o.k, o.v>>), None)
    [] o.op = "extend"    -> R(its \o o.ps, None)
    [] o.op = "insert"    -> R(InsertAt(its, o.i, o.ps), None)
    [] o.op = "insert_before" ->
          LET x == KeyIndex(its, o.k, o.i)
          IN IF x < 0 THEN R(its, KeyIndexRet(x)) ELSE R(InsertAt(its, x, o.ps), None)
    [] o.op = "insert_after" ->
          LET x == KeyIndex(its, o.k, o.i)
          IN IF x < 0 THEN R(its, KeyIndexRet(x)) ELSE R(InsertAt(its, x + 1, o.ps), None)
    [] o.op = "setitem"   -> R(SetItemL(its, o.k, o.v), None)
    [] o.op = "delitem"   -> IF Has(its, o.k) THEN R(Without(its, o.k), None)
                             ELSE R(its, Exc("KeyError"))
    [] o.op \in {"pop", "popitem"} ->
          IF its = <<>> THEN R(its, Exc("KeyError"))
          ELSE R(SubSeq(its, 1, Len(its) - 1), PairR(its[Len(its)]))
    [] o.op \in {"popkey", "popall"} ->         \* pop(k) / popall(k) without default
          IF Has(its, o.k) THEN R(Without(its, o.k), ValR(its[FirstPos(its, o.k)][2]))
          ELSE R(its, Exc("KeyError"))
    [] o.op \in {"popkey_d", "popall_d"} ->     \* with default o.v
          IF Has(its, o.k) THEN R(Without(its, o.k), ValR(its[FirstPos(its, o.k)][2]))
          ELSE R(its, ValR(o.v))
    [] o.op = "setdefault" ->
          IF Has(its, o.k) THEN R(its, ValR(its[FirstPos(its, o.k)][2]))
          ELSE R(Append(its, <<o.k, o.v>>), ValR(o.v))
    [] o.op = "update"    -> R(UpdateL(its, o.ps), None)
    [] o.op = "discard"   -> R(Without(its, o.k), None)
    [] o.op = "clear"     -> R(<<>>, None)

OpNames == {"append", "extend", "insert", "insert_before", "insert_after", "setitem", "delitem",
            "pop", "popitem", "popkey", "popall", "popkey_d", "popall_d", "setdefault",
            "update", "discard", "clear"}

(* ---------- the observers: everything the public read API shows ---------- *)
IdxErr == <<"!IndexError", "!">>
At(its, i) == LET L == Len(its) IN           \* m[i] with Python indexing
    IF i >= 0 /\ i < L THEN its[i + 1]
    ELSE IF i < 0 /\ -i <= L THEN its[L + i + 1]
    ELSE IdxErr
FirstIdx(seq, x) ==                            \* list.index, -1 = ValueError
    IF \E j \in 1..Len(seq) : seq[j] = x
    THEN (CHOOSE j \in 1..Len(seq) : seq[j] = x /\ \A h \in 1..(j-1) : seq[h] # x) - 1
    ELSE -1
KeysOf(its) == [j \in 1..Len(its) |-> its[j][1]]
ValsOf(its) == [j \in 1..Len(its) |-> its[j][2]]
Step2(its)  == [j \in 1..((Len(its) + 1) \div 2) |-> its[2*j - 1]]
Rev(its)    == [j \in 1..Len(its) |-> its[Len(its) - j + 1]]

KeyObs(its, k) ==
   [in    |-> Has(its, k),
    get   |-> IF Has(its, k) THEN its[FirstPos(its, k)][2] ELSE "!KeyError",   \* m[k]
    getd  |-> IF Has(its, k) THEN its[FirstPos(its, k)][2] ELSE "!default",    \* m.get(k, "!default")
    all   |-> IF Has(its, k) THEN AllVals(its, k) ELSE <<"!KeyError">>,         \* m.getall(k)
    kidx  |-> FirstIdx(KeysOf(its), k),                                         \* m.keys().index(k)
    ki    |-> << KeyIndex(its, k, 0), KeyIndex(its, k, 1), KeyIndex(its, k, 2), KeyIndex(its, k, -1) >>]

Obs(its, ProbeKeys, ProbeVals) ==
   [len    |-> Len(its),
    list   |-> its,
    at     |-> [j \in 1..(2 * Len(its) + 2) |-> At(its, j - Len(its) - 2)],   \* i = -L-1 .. L
    tail   |-> IF its = <<>> THEN <<>> ELSE Tail(its),                      \* m[1:]
    init   |-> IF its = <<>> THEN <<>> ELSE SubSeq(its, 1, Len(its) - 1),   \* m[:-1]
    step2  |-> Step2(its),                                                  \* m[::2]
    rev    |-> Rev(its),                                                    \* m[::-1]
    keys   |-> KeysOf(its),
    values |-> ValsOf(its),
    key    |-> [k \in ProbeKeys |-> KeyObs(its, k)],
    val    |-> [v \in ProbeVals |-> FirstIdx(ValsOf(its), v)],              \* values().index(v); -1: not in values()
    item   |-> [k \in ProbeKeys |-> [v \in ProbeVals |-> FirstIdx(its, <<k, v>>)]]]
=============================================================================
