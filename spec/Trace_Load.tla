------------------------------- MODULE Trace_Load -------------------------------
(* The reference loader as a judge of arbitrary texts: for every event [d, text]  *)
(* of the trace file, prints the outcome the reference assigns (verdict, tree,    *)
(* errors) and, when asked (gaps = TRUE), the token boundaries of the reference   *)
(* lexer up to the END statement (used to re-lay-out real labels for C04).        *)
EXTENDS PvlLoader, Json, IOUtils
Events == JsonDeserialize(IOEnv.TRACE_FILE)
VARIABLES i
Init == i \in 1..Len(Events)
Next == FALSE /\ i' = i
Spec == Init /\ [][Next]_i
E == Events[i]

(* token spans <<b, e>> (1-based, e exclusive) of the non-white-space, non-comment elements up to END *)
RECURSIVE Spans(_, _, _)
Spans(d, t, i0) ==
   LET raw == RawTok(d, t, i0) IN
   IF raw.rk \in {"eof", "bad"} THEN <<>>
   ELSE IF raw.rk \in {"ws", "C"} THEN Spans(d, t, raw.e)
   ELSE IF raw.rk = "W" /\ KeywordKind(d, SubSeq(t, raw.b, raw.e - 1)) = "END" THEN << <<raw.b, raw.e>> >>
   ELSE << <<raw.b, raw.e>> >> \o Spans(d, t, raw.e)
Text == IF DashPrepass(E.d) /\ E.gaps THEN Prepass(E.text, 1, 0).t ELSE E.text
Verdict == PrintT(ToJson([i |-> i, o |-> Load(E.d, E.text), spans |-> IF E.gaps THEN Spans(E.d, Text, 1) ELSE <<>>]))
=============================================================================
