------------------------- MODULE Trace_TokenStream -------------------------
(* Validates the calls the real parser made on the real lexer generator      *)
(* (recorded by a proxy passed as lexer_fn, no hook in the library) against  *)
(* spec/TokenStream.tla.  A trace is                                          *)
(*   [n, ending, kind, ev, result]                                            *)
(* n fresh tokens (from an independent run of the lexer over the same text),  *)
(* ending "stop"/"error", kind[k] in {0 other, 1 END statement, 2 white       *)
(* space/comment or ';'}, ev a sequence of [op, a, r] (call, argument token   *)
(* id or 0, returned token id or the codes of TokenStream), result "module"   *)
(* or "raise".  The verdict is total: one JSON line per trace naming every    *)
(* failing clause:                                                            *)
(*   generator-response-differs   the generator did not answer as GenStep     *)
(*   send-before-start / send-while-holding / send-after-end /                *)
(*   send-not-last-received / throw-outside-stream     client discipline      *)
(*   returned-with-unread-tokens  a module was returned although fresh tokens *)
(*                                were left (or one was still held) and no    *)
(*                                END statement had been read                 *)
EXTENDS Integers, Sequences, TLC, Json, IOUtils
Traces == JsonDeserialize(IOEnv.TRACE_FILE)
N == 0
Ending == "stop"
Discipline == "strict"
MaxOps == 0
VARIABLES g, hand, ret, ops
TS == INSTANCE TokenStream
VARIABLES tid, l, fails
allvars == <<g, hand, ret, ops, tid, l, fails>>
T == Traces[tid]
Ev == T.ev[l]
TInit == tid \in 1..Len(Traces) /\ l = 1 /\ fails = <<>> /\ g = TS!GenInit /\ hand = <<>> /\ ret = 0 /\ ops = 0
F(c) == << [l |-> l, clause |-> c] >>
Step == /\ l <= Len(T.ev) /\ l' = l + 1 /\ tid' = tid /\ ops' = ops + 1
        /\ LET r == TS!GenStepOn(T.n, T.ending, g, Ev.op, Ev.a)
               c0 == IF r[2] # Ev.r THEN F("generator-response-differs") ELSE <<>>
               c1 == IF Ev.op = "send" THEN
                        (IF g.st = "new" THEN F("send-before-start") ELSE <<>>)
                        \o (IF g.st = "hold" THEN F("send-while-holding") ELSE <<>>)
                        \o (IF g.st = "done" THEN F("send-after-end") ELSE <<>>)
                        \o (IF hand = <<>> \/ (hand # <<>> /\ hand[Len(hand)] # Ev.a) THEN F("send-not-last-received") ELSE <<>>)
                     ELSE IF Ev.op = "throw" /\ g.st \in {"new", "done"} THEN F("throw-outside-stream") ELSE <<>>
           IN /\ g' = r[1] /\ ret' = Ev.r
              /\ fails' = fails \o c0 \o c1
              /\ hand' = IF Ev.op = "next" /\ Ev.r >= 1 THEN Append(hand, Ev.r)
                         ELSE IF Ev.op = "send" THEN TS!RemoveLast(hand, Ev.a) ELSE hand
TSpec == TInit /\ [][Step]_allvars
Finished == l = Len(T.ev) + 1
EndSeen == \E k \in 1..Len(hand) : T.kind[hand[k]] = 1 /\ \A m \in (k + 1)..Len(hand) : T.kind[hand[m]] = 2
AllRead == g.i > T.n /\ g.st # "hold"
Final == IF T.result = "module" /\ ~AllRead /\ ~EndSeen THEN F("returned-with-unread-tokens") ELSE <<>>
Verdict == Finished => PrintT(ToJson([tid |-> tid, n |-> l - 1, fails |-> fails \o Final, st |-> g.st]))
=============================================================================
