SPECIFICATION Spec
CONSTANT NFiles = 10
CONSTANT Triples = 5
INVARIANT TablesComplete
INVARIANT EmitCase
CHECK_DEADLOCK FALSE
