SPECIFICATION Spec
CONSTANT MaxLen = 6
CONSTANT Dialect = "tolerant"
CONSTANT Emit = FALSE
INVARIANT RejectHasLocus
INVARIANT AcceptMeansClosed
INVARIANT ErrsOnlyIfTolerant
INVARIANT NothingAfterEnd
INVARIANT EofTotal
INVARIANT ErrsAscending
INVARIANT EmitCase
CHECK_DEADLOCK FALSE
