------------------------------- MODULE MC_Heap -------------------------------
(* Bounded exploration of Heap: build a nested container (<= MaxObjs objects, *)
(* <= MaxItems items each), copy it with one mechanism, then mutate either    *)
(* side <= MaxMut times.  Checks the C11 invariants on the model and prints   *)
(* every maximal behaviour as a replay case with the expected projections of  *)
(* both roots after every step.                                               *)
EXTENDS Heap, Json
CONSTANTS MaxObjs, MaxItems, MaxMut, RootClasses, MechSet, Emit, AtomVals, MutNames, ChildClasses
(* ChildClasses: classes of nested objects.  Besides the two block classes: "list" (a Python list, the form a PVL   *)
(* sequence takes once loaded) and "qtylist" (a Quantity whose value is such a list, `(1, 2) <m>`): mutable objects  *)
(* below the top level that deep copies and pickles must duplicate as well.  Their items carry the empty key.       *)
(* AtomVals beginning with "@" stand for the non-string leaves a loader produces (harness/heapops.py: @empty the     *)
(* missing-value placeholder, @qty a Quantity, @dt a datetime, @dec a Decimal, @int, @set a frozenset).             *)
ListLike == {"list", "qtylist"}

K == {"a", "b"}
VARIABLES heap, phase, cp, mech, tree0, muts
vars == <<heap, phase, cp, mech, tree0, muts>>
root == 1

Init == /\ heap \in { << [cls |-> c, items |-> <<>>] >> : c \in RootClasses }
        /\ phase = "build" /\ cp = 0 /\ mech = "" /\ tree0 = <<>> /\ muts = <<>>

AddAtom(id, k, s) ==
   /\ phase = "build" /\ Len(heap[id].items) < MaxItems
   /\ heap' = [heap EXCEPT ![id].items = Append(@, <<k, Atom(s)>>)]
   /\ UNCHANGED <<phase, cp, mech, tree0, muts>>
AddChild(id, k, c) ==
   /\ phase = "build" /\ Len(heap[id].items) < MaxItems /\ Len(heap) < MaxObjs
   /\ heap' = Append([heap EXCEPT ![id].items = Append(@, <<k, Ref(Len(heap) + 1)>>)],
                     [cls |-> c, items |-> <<>>])
   /\ UNCHANGED <<phase, cp, mech, tree0, muts>>
(* build in a canonical order (only the newest object or the root may grow) to avoid      *)
(* reaching the same tree through many orders                                             *)
KeysFor(id) == IF heap[id].cls \in ListLike THEN {""} ELSE K
Build == \E id \in {Len(heap)} \cup {1} :
            \/ \E k \in KeysFor(id), s \in AtomVals : AddAtom(id, k, s)
            \/ heap[id].cls \notin ListLike /\ \E k \in K, c \in ChildClasses : AddChild(id, k, c)

Copy(m) ==
   /\ phase = "build" /\ m \in MechSet
   /\ mech' = m /\ phase' = "copied" /\ tree0' = Proj(heap, root)
   /\ IF m \in Shallow
      THEN /\ heap' = Append(heap, [cls |-> heap[root].cls, items |-> heap[root].items])
           /\ cp' = Len(heap) + 1
      ELSE /\ heap' = CloneAll(heap)
           /\ cp' = root + Len(heap)
   /\ muts' = << [side |-> "copy", path |-> <<>>, o |-> [op |-> "copy", k |-> m, v |-> ""],
                  orig |-> Proj(heap', root), copy |-> Proj(heap', cp')] >>

MutOps == { [op |-> "append", k |-> "a", v |-> "m"], [op |-> "setitem", k |-> "a", v |-> "m"],
            [op |-> "setitem", k |-> "b", v |-> "m"], [op |-> "delitem", k |-> "a", v |-> ""],
            [op |-> "pop", k |-> "", v |-> ""], [op |-> "insert", k |-> "b", v |-> "m"],
            [op |-> "clear", k |-> "", v |-> ""] }
AsOp(o) == [op |-> o.op, k |-> o.k, v |-> Atom(o.v), i |-> 0, ps |-> << <<o.k, Atom(o.v)>> >>, form |-> "kv"]

Mutate(side, path, o) ==
   /\ phase = "copied" /\ Len(muts) <= MaxMut
   /\ LET r0  == IF side = "orig" THEN root ELSE cp
          tgt == Resolve(heap, r0, path)
          lst == tgt # 0 /\ heap[tgt].cls \in ListLike
          o1  == IF lst THEN [o EXCEPT !.k = ""] ELSE o          \* list.append(v) / list.pop() / list.clear()
          res == Apply(heap[tgt].items, AsOp(o1))
      IN /\ tgt # 0
         /\ lst => o.op \in {"append", "pop", "clear"}
         /\ res.ret.t # "exc"                 \* failing operations change nothing: not interesting here
         /\ heap' = [heap EXCEPT ![tgt].items = res.items]
         /\ muts' = Append(muts, [side |-> side, path |-> path, o |-> o,
                                  orig |-> Proj(heap', root), copy |-> Proj(heap', cp)])
   /\ UNCHANGED <<phase, cp, mech, tree0>>

Next == \/ Build
        \/ \E m \in MechSet : Copy(m)
        \/ phase = "copied" /\ \E side \in {"orig", "copy"} :
             \E path \in (IF mech \in Shallow THEN { <<>> } ELSE Paths(heap, IF side = "orig" THEN root ELSE cp)) :
               \E o \in {x \in MutOps : x.op \in MutNames} : Mutate(side, path, o)
Spec == Init /\ [][Next]_vars

(* ---- C11 on the model ---- *)
CopyEqual  == (phase = "copied" /\ Len(muts) = 1) => Proj(heap, cp) = Proj(heap, root)
OrigIntact == (phase = "copied" /\ Len(muts) = 1) => Proj(heap, root) = tree0
Independent == [][ (phase = "copied" /\ phase' = "copied") =>
                      LET last == muts'[Len(muts')] IN
                      IF last.side = "copy" THEN Proj(heap', root) = Proj(heap, root)
                                            ELSE Proj(heap', cp) = Proj(heap, cp) ]_vars
ClassesKept == phase = "copied" => Proj(heap, cp).cls = tree0.cls

Final == phase = "copied" /\ Len(muts) = MaxMut + 1
EmitCase == (Emit /\ Final) => PrintT(ToJson([tree |-> tree0, mech |-> mech, steps |-> muts]))
=============================================================================
