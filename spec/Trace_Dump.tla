------------------------------ MODULE Trace_Dump ------------------------------
(* Judges recorded dump sessions (C13).  One trace = one real module and a     *)
(* script of dump / mutate events.  Event fields: ev ("dump" | "mutate"), enc, *)
(* pre, post (tree projections of the argument before and after the call),     *)
(* text (digest of the returned text, "" when the encoder refused), exc.       *)
(* State: last[enc] = outcome of the last dump with enc since the last mutate. *)
EXTENDS Heap, Json, IOUtils
Traces == JsonDeserialize(IOEnv.TRACE_FILE)
VARIABLES tid, l, last, fails
vars == <<tid, l, last, fails>>
Ev == Traces[tid].ev[l]
NoText == [text |-> "?", exc |-> "?"]
TInit == tid \in 1..Len(Traces) /\ l = 1 /\ fails = <<>> /\ last = [e \in Encoders |-> NoText]

F(clause) == << [l |-> l, clause |-> clause, enc |-> Ev.enc] >>
Step ==
  /\ l <= Len(Traces[tid].ev)
  /\ l' = l + 1 /\ tid' = tid
  /\ IF Ev.ev = "mutate"
     THEN /\ last' = [e \in Encoders |-> NoText] /\ fails' = fails
     ELSE IF Ev.ev = "other"            \* unrelated activity in the process (another dump with other options, another encoder
     THEN /\ last' = last /\ fails' = fails   \* instance being configured): must not matter, so nothing is reset
     ELSE LET out == [text |-> Ev.text, exc |-> Ev.exc]
              c1 == IF DumpAllowed(Ev.enc, Ev.pre, Ev.post) THEN <<>> ELSE F("argument-altered")
              c2 == IF last[Ev.enc] = NoText \/ last[Ev.enc] = out THEN <<>> ELSE F("not-repeatable")
              c3 == IF Ev.exc \in {"", "ValueError", "TypeError"} THEN <<>> ELSE F("undocumented-exception")
          IN /\ fails' = fails \o c1 \o c2 \o c3
             /\ last' = [last EXCEPT ![Ev.enc] = out]
TSpec == TInit /\ [][Step]_vars
Finished == l = Len(Traces[tid].ev) + 1
Verdict == Finished => PrintT(ToJson([tid |-> tid, n |-> l - 1, fails |-> fails]))
=============================================================================
