------------------------------ MODULE PvlValues ------------------------------
(***************************************************************************)
(* Dialect tables, character sets, and the classification / denotation of   *)
(* token texts (DESIGN.md appendices A and D).  A token text is a sequence  *)
(* of code points.  Classify(d, s) is total: it returns [c, v] where c is   *)
(* exactly one class and v the tagged node N(t, s, xs) the text denotes.    *)
(*                                                                         *)
(* classes: "null" "true" "false" "quoted" "based" "int" "real" "date"      *)
(*          "time" "datetime" "leap" "unq" "kw" "nav" (not a value)         *)
(*          "unspec" (the specifications leave it open; nothing is judged)  *)
(***************************************************************************)
EXTENDS PvlText, Integers

Dialects == {"PVL", "ODL", "PDS3", "ISIS", "OMNI"}

(* ---------------- characters ---------------- *)
Allowed(d, c) == CASE d = "OMNI" -> TRUE
                   [] d \in {"ODL", "PDS3"} -> c <= 127
                   [] OTHER -> (c \in 9..13) \/ (c \in 32..126) \/ (c \in 160..255)
WS == {32, 9, 10, 13, 11, 12}
FormatEffectors == {10, 13, 11, 12}
(* characters Python's str.isspace() / \s take for white space; those outside WS are ordinary characters
   for the specifications, but the library's token predicates use isspace(): left open *)
PyWS == {9, 10, 11, 12, 13, 28, 29, 30, 31, 32, 133, 160, 5760, 8232, 8233, 8239, 8287, 12288} \cup (8192..8202)
ReservedBase == {38, 60, 62, 39, 123, 125, 44, 91, 93, 61, 33, 35, 40, 41, 37, 43, 34, 59, 126, 124}
                \* & < > ' { } , [ ] = ! # ( ) % + " ; ~ |
Reserved(d) == CASE d = "ISIS" -> ReservedBase \ {43}
                 [] d = "OMNI" -> (ReservedBase \ {43}) \cup {0}
                 [] OTHER -> ReservedBase
HashComments(d) == d \in {"ISIS", "OMNI"}
FoldsStrings(d) == d # "PVL"                  \* ODL-family decoders fold white space in quoted strings
OdlValues(d)    == d \in {"ODL", "PDS3"}      \* unquoted values must be ODL identifiers
HasOffsets(d)   == d \in {"ODL", "ISIS", "OMNI"}
DefaultUTC(d)   == d # "ODL"
LeapAsText(d)   == d \in {"PVL", "ISIS", "OMNI"}
Tolerant(d)     == d \in {"ISIS", "OMNI"}
DashPrepass(d)  == d \in {"ISIS", "OMNI"}

(* ---------------- keywords ---------------- *)
KeywordKind(d, s) ==
   CASE EqFold(s, "END") -> "END"
     [] EqFold(s, "END_GROUP") -> "EG"
     [] EqFold(s, "END_OBJECT") -> "EO"
     [] EqFold(s, "GROUP") -> "BG"
     [] EqFold(s, "OBJECT") -> "BO"
     [] d # "ISIS" /\ EqFold(s, "BEGIN_GROUP") -> "BG"     \* the ISIS grammar has no BEGIN_ forms
     [] d # "ISIS" /\ EqFold(s, "BEGIN_OBJECT") -> "BO"
     [] OTHER -> ""

(* ---------------- quoted strings ---------------- *)
IsQuoted(s) == Len(s) >= 2 /\ s[1] = s[Len(s)] /\ s[1] \in {34, 39}

(* ODL folding: drop "-" + format effector + following white space; strip; collapse runs to one space *)
RECURSIVE SkipWsRun(_, _)
SkipWsRun(t, i) == IF i <= Len(t) /\ t[i] \in WS THEN SkipWsRun(t, i + 1) ELSE i
RECURSIVE Undash(_, _)
Undash(t, i) == IF i > Len(t) THEN <<>>
                ELSE IF t[i] = 45 /\ i < Len(t) /\ t[i + 1] \in FormatEffectors
                     THEN Undash(t, SkipWsRun(t, i + 2))
                     ELSE <<t[i]>> \o Undash(t, i + 1)
RECURSIVE Collapse(_, _, _)     \* pend: a white-space run is pending; started: something has been written
Collapse(t, i, pend) ==
   IF i > Len(t) THEN <<>>
   ELSE IF t[i] \in WS THEN Collapse(t, i + 1, TRUE)
   ELSE (IF pend THEN <<32, t[i]>> ELSE <<t[i]>>) \o Collapse(t, i + 1, FALSE)
FoldText(t) == LET u == Undash(t, 1)
                   c == Collapse(u, 1, FALSE)
               IN IF c # <<>> /\ c[1] = 32 THEN Tail(c) ELSE c      \* a leading run leaves one space: strip it
QuotedValue(d, s) == LET inner == SubSeq(s, 2, Len(s) - 1)
                     IN IF FoldsStrings(d) THEN FoldText(inner) ELSE inner

(* ---------------- numbers ---------------- *)
IsSign(c) == c \in {43, 45}
(* [sign] digits -> integer ; [sign] (digits [. [digits]] | . digits) [e [sign] digits] -> real *)
DecimalKind(s) ==
   LET n  == Len(s)
       b  == IF n >= 1 /\ IsSign(s[1]) THEN 2 ELSE 1
       e1 == DigitsEnd(s, b)                                 \* end of integer digits
       hasInt == e1 > b
       dot == e1 <= n /\ s[e1] = 46
       e2 == IF dot THEN DigitsEnd(s, e1 + 1) ELSE e1        \* end of fraction digits
       hasFrac == dot /\ e2 > e1 + 1
       mantOK == hasInt \/ hasFrac
       ex == e2 <= n /\ s[e2] \in {101, 69}
       b3 == IF ex /\ e2 + 1 <= n /\ IsSign(s[e2 + 1]) THEN e2 + 2 ELSE e2 + 1
       e3 == IF ex THEN DigitsEnd(s, b3) ELSE e2
       expOK == ~ex \/ e3 > b3
   IN IF ~mantOK \/ ~expOK \/ e3 # n + 1 THEN "no"
      ELSE IF dot \/ ex THEN "real" ELSE "int"

(* based integers; returns <<>> if s is not one, else <<radix, signseq, digits>> *)
DigitOK(c, radix) == LET v == IF IsDigit(c) THEN c - 48 ELSE IF c \in 65..70 THEN c - 55 ELSE IF c \in 97..102 THEN c - 87 ELSE 99
                     IN v < radix
BasedParts(d, s) ==
   LET n == Len(s)
       s1 == IF n >= 1 /\ IsSign(s[1]) THEN <<s[1]>> ELSE <<>>      \* PVL sign position
       b == 1 + Len(s1)
       re == DigitsEnd(s, b)                                        \* radix digits b..re-1
       radixOK == re > b /\ re - b <= 2 /\ re <= n /\ s[re] = 35
       radix == IF radixOK THEN NumVal(SubSeq(s, b, re - 1)) ELSE 0
       s2 == IF radixOK /\ re + 1 <= n /\ IsSign(s[re + 1]) THEN <<s[re + 1]>> ELSE <<>>   \* ODL sign position
       db == re + 1 + Len(s2)
       de == HexEnd(s, db)
       shapeOK == radixOK /\ de > db /\ de = n /\ s[n] = 35
       digits == IF shapeOK THEN SubSeq(s, db, de - 1) ELSE <<>>
       radixAllowed == IF d \in {"PVL", "ISIS"} THEN radix \in {2, 8, 16} ELSE radix \in 2..16
       (* no leading zero games: the radix is written as the library's patterns write it (2..16, no leading zeros) *)
       radixCanon == radixOK /\ SubSeq(s, b, re - 1) = Dec(radix)
       signOK == CASE d \in {"PVL", "ISIS"} -> s2 = <<>>
                   [] d \in {"ODL", "PDS3"} -> s1 = <<>>
                   [] OTHER -> s1 = <<>> \/ s2 = <<>>
   IN IF shapeOK /\ radixAllowed /\ radixCanon /\ signOK /\ \A j \in 1..Len(digits) : DigitOK(digits[j], radix)
      THEN << radix, s1 \o s2, digits >> ELSE <<>>

(* ---------------- dates and times ---------------- *)
IsLeapYear(y) == (y % 4 = 0 /\ y % 100 # 0) \/ y % 400 = 0
DaysIn(y, m) == CASE m \in {1, 3, 5, 7, 8, 10, 12} -> 31
                  [] m \in {4, 6, 9, 11} -> 30
                  [] OTHER -> IF IsLeapYear(y) THEN 29 ELSE 28
RECURSIVE DoyToMD(_, _, _)     \* <<month, day>> of day-of-year n in year y, starting the search at month m
DoyToMD(y, m, n) == IF n <= DaysIn(y, m) THEN <<m, n>> ELSE DoyToMD(y, m + 1, n - DaysIn(y, m))
AllDig(s, i, j) == j <= Len(s) /\ \A h \in i..j : IsDigit(s[h])
Pad(n, w) == LET x == Dec(n) IN [i \in 1..(w - Len(x)) |-> 48] \o x

(* date in canonical widths at s[i..]; returns [ok, y, m, dd, e] with e the index after it *)
DateAt(s, i) ==
   LET n == Len(s)
       ymd == i + 9 <= n /\ AllDig(s, i, i + 3) /\ s[i + 4] = 45 /\ AllDig(s, i + 5, i + 6)
              /\ s[i + 7] = 45 /\ AllDig(s, i + 8, i + 9) /\ ~(i + 10 <= n /\ IsDigit(s[i + 10]))
       yj  == i + 7 <= n /\ AllDig(s, i, i + 3) /\ s[i + 4] = 45 /\ AllDig(s, i + 5, i + 7)
              /\ ~(i + 8 <= n /\ (IsDigit(s[i + 8]) \/ s[i + 8] = 45))
       y == IF ymd \/ yj THEN NumVal(SubSeq(s, i, i + 3)) ELSE 0
   IN IF ymd THEN LET m == NumVal(SubSeq(s, i + 5, i + 6)) dd == NumVal(SubSeq(s, i + 8, i + 9))
                  IN [shape |-> TRUE, ok |-> y >= 1 /\ m \in 1..12 /\ dd >= 1 /\ dd <= DaysIn(y, m),
                      y |-> y, m |-> m, dd |-> dd, e |-> i + 10]
      ELSE IF yj THEN LET j == NumVal(SubSeq(s, i + 5, i + 7))
                          ok == y >= 1 /\ j >= 1 /\ j <= (IF IsLeapYear(y) THEN 366 ELSE 365)
                          md == IF ok THEN DoyToMD(y, 1, j) ELSE <<0, 0>>
                      IN [shape |-> TRUE, ok |-> ok, y |-> y, m |-> md[1], dd |-> md[2], e |-> i + 8]
      ELSE [shape |-> FALSE, ok |-> FALSE, y |-> 0, m |-> 0, dd |-> 0, e |-> i]

(* time in canonical widths at s[i..]: HH:MM[:SS[.f{1,6}]] *)
TimeAt(s, i) ==
   LET n == Len(s)
       hm == i + 4 <= n /\ AllDig(s, i, i + 1) /\ s[i + 2] = 58 /\ AllDig(s, i + 3, i + 4)
       sec == hm /\ i + 7 <= n /\ s[i + 5] = 58 /\ AllDig(s, i + 6, i + 7)
       fb == i + 9
       fe == IF sec /\ i + 8 <= n /\ s[i + 8] = 46 THEN DigitsEnd(s, fb) ELSE fb
       frac == fe > fb
       e == IF ~hm THEN i ELSE IF ~sec THEN i + 5 ELSE IF ~frac THEN i + 8 ELSE fe
       H == IF hm THEN NumVal(SubSeq(s, i, i + 1)) ELSE 99
       M == IF hm THEN NumVal(SubSeq(s, i + 3, i + 4)) ELSE 99
       Sx == IF sec THEN NumVal(SubSeq(s, i + 6, i + 7)) ELSE 0
       fdig == IF frac THEN SubSeq(s, fb, fe - 1) ELSE <<>>
       trailingDigit == e <= n /\ (IsDigit(s[e]) \/ s[e] = 58 \/ s[e] = 46)
   IN [shape |-> hm /\ ~trailingDigit,
       ok |-> hm /\ ~trailingDigit /\ H <= 23 /\ M <= 59 /\ Sx <= 60 /\ (Len(fdig) <= 6 \/ Sx = 60),
       H |-> H, M |-> M, S |-> Sx, f |-> fdig, hasSec |-> sec, e |-> e]

(* zone offset at s[i..]: sign H[H][:MM] to the end of s; returns minutes or 9999 when not an offset *)
OffsetAt(s, i) ==
   LET n == Len(s)
       sg == i <= n /\ IsSign(s[i])
       he == DigitsEnd(s, i + 1)
       hlen == he - (i + 1)
       colon == he <= n /\ s[he] = 58
       mok == colon /\ he + 2 = n /\ AllDig(s, he + 1, he + 2)
       done == (he = n + 1) \/ mok
       H == IF hlen \in {1, 2} THEN NumVal(SubSeq(s, i + 1, he - 1)) ELSE 99
       M == IF mok THEN NumVal(SubSeq(s, he + 1, he + 2)) ELSE 0
   IN IF sg /\ hlen \in {1, 2} /\ done /\ H <= 12 /\ M <= 59
      THEN (IF s[i] = 45 THEN -1 ELSE 1) * (H * 60 + M) ELSE 9999

Naive == 10000                 \* zone codes: minutes east of UTC, 0 = UTC, Naive = no zone
ZoneText(z) == IF z = Naive THEN S("naive") ELSE IF z = 0 THEN S("utc")
               ELSE S("off") \o (IF z < 0 THEN <<45>> \o Dec(-z) ELSE <<43>> \o Dec(z))
Frac6(f) == f \o [i \in 1..(6 - Len(f)) |-> 48]
DateText(dt) == Pad(dt.y, 4) \o <<45>> \o Pad(dt.m, 2) \o <<45>> \o Pad(dt.dd, 2)
TimeText(tm) == Pad(tm.H, 2) \o <<58>> \o Pad(tm.M, 2) \o <<58>> \o Pad(tm.S, 2) \o <<46>> \o Frac6(tm.f)

(* Loose shape: digits and separators that strptime-based or ODL readers may take for a date/time in
   non-canonical field widths (2001-1-1, 1:2); the specifications differ, so nothing is judged. *)
RECURSIVE OnlyDateTimeChars(_, _)
OnlyDateTimeChars(s, i) == i > Len(s) \/ ((IsDigit(s[i]) \/ s[i] \in {45, 58, 46, 84, 90, 43}) /\ OnlyDateTimeChars(s, i + 1))
LooksTemporal(s) == LET e == DigitsEnd(s, 1) IN
                    /\ e > 1 /\ e + 1 <= Len(s) /\ s[e] \in {45, 58} /\ IsDigit(s[e + 1])
                    /\ OnlyDateTimeChars(s, 1)

(* full temporal classification: [c, v] with c in date/time/datetime/leap/unspec/no *)
Temporal(d, s) ==
   LET n == Len(s)
       dt == DateAt(s, 1)
       hasT == dt.shape /\ dt.e <= n /\ s[dt.e] = 84
       tb == IF hasT THEN dt.e + 1 ELSE IF dt.shape THEN 0 ELSE 1     \* where a time would start (0: none)
       tm == IF tb > 0 THEN TimeAt(s, tb) ELSE [shape |-> FALSE, ok |-> FALSE, H |-> 0, M |-> 0, S |-> 0, f |-> <<>>, hasSec |-> FALSE, e |-> 0]
       hasTime == tb > 0 /\ tm.shape
       e1 == IF hasTime THEN tm.e ELSE dt.e                          \* after date / time
       z == e1 <= n /\ s[e1] = 90
       e2 == IF z THEN e1 + 1 ELSE e1
       off == IF e2 <= n THEN OffsetAt(s, e2) ELSE 9999
       hasOff == off # 9999
       atEnd == e2 = n + 1
       shapeOK == (dt.shape \/ hasTime) /\ (hasT => hasTime) /\ (atEnd \/ hasOff)
       zone == IF z THEN 0 ELSE IF hasOff THEN off ELSE IF DefaultUTC(d) THEN 0 ELSE Naive
   IN IF ~shapeOK THEN (IF LooksTemporal(s) THEN [c |-> "unspec", v |-> NoVal] ELSE [c |-> "no", v |-> NoVal])
      ELSE IF hasOff /\ (z \/ ~hasTime) THEN [c |-> "unspec", v |-> NoVal]       \* Z+offset, date+offset: left open
      ELSE IF hasOff /\ ~HasOffsets(d) THEN [c |-> "no", v |-> NoVal]
      ELSE IF (dt.shape /\ ~dt.ok) \/ (hasTime /\ ~tm.ok) THEN [c |-> "no", v |-> NoVal]
      ELSE IF hasTime /\ tm.S = 60 THEN
           (IF LeapAsText(d) /\ ~hasOff THEN [c |-> "leap", v |-> N("str", s, <<>>)] ELSE [c |-> "no", v |-> NoVal])
      ELSE IF hasTime /\ d = "PDS3" /\ Len(tm.f) > 3 /\ (\E j \in 4..Len(tm.f) : tm.f[j] # 48) THEN [c |-> "no", v |-> NoVal]
      ELSE IF dt.shape /\ ~hasTime THEN [c |-> "date", v |-> N("date", DateText(dt), <<>>)]
      ELSE IF ~dt.shape THEN [c |-> "time", v |-> N("time", TimeText(tm) \o <<124>> \o ZoneText(zone), <<>>)]
      ELSE [c |-> "datetime", v |-> N("datetime", DateText(dt) \o <<84>> \o TimeText(tm) \o <<124>> \o ZoneText(zone), <<>>)]

(* the fields a temporal text denotes, for instant arithmetic: [kind, y, m, dd, H, M, S, us, zone] *)
TemporalFields(d, s) ==
   LET n == Len(s)
       dt == DateAt(s, 1)
       hasT == dt.shape /\ dt.e <= n /\ s[dt.e] = 84
       tb == IF hasT THEN dt.e + 1 ELSE IF dt.shape THEN 0 ELSE 1
       tm == IF tb > 0 THEN TimeAt(s, tb) ELSE [shape |-> FALSE, ok |-> FALSE, H |-> 0, M |-> 0, S |-> 0, f |-> <<>>, hasSec |-> FALSE, e |-> 0]
       hasTime == tb > 0 /\ tm.shape
       e1 == IF hasTime THEN tm.e ELSE dt.e
       z == e1 <= n /\ s[e1] = 90
       e2 == IF z THEN e1 + 1 ELSE e1
       off == IF e2 <= n THEN OffsetAt(s, e2) ELSE 9999
       zone == IF z THEN 0 ELSE IF off # 9999 THEN off ELSE IF DefaultUTC(d) THEN 0 ELSE Naive
   IN [kind |-> Temporal(d, s).c, y |-> dt.y, m |-> dt.m, dd |-> dt.dd,
       H |-> IF hasTime THEN tm.H ELSE 0, M |-> IF hasTime THEN tm.M ELSE 0, S |-> IF hasTime THEN tm.S ELSE 0,
       us |-> IF hasTime THEN NumVal(Frac6(tm.f)) ELSE 0, zone |-> zone]
(* days since 0001-01-01 (proleptic Gregorian) *)
DaysBeforeYear(y) == LET p == y - 1 IN p * 365 + p \div 4 - p \div 100 + p \div 400
RECURSIVE DaysBeforeMonth(_, _)
DaysBeforeMonth(y, m) == IF m <= 1 THEN 0 ELSE DaysIn(y, m - 1) + DaysBeforeMonth(y, m - 1)
Ordinal(y, m, dd) == DaysBeforeYear(y) + DaysBeforeMonth(y, m) + dd
(* two temporal field records denote the same instant at the same precision.  A naive value and a
   value in the reader's default zone are the same reading (the documented normalisation). *)
SameInstant(a, b, defaultUTC) ==
   LET za == IF a.zone = Naive /\ defaultUTC THEN 0 ELSE a.zone
       zb == IF b.zone = Naive /\ defaultUTC THEN 0 ELSE b.zone
   IN /\ a.kind = b.kind
      /\ a.S = b.S /\ a.us = b.us
      /\ IF a.kind = "date" THEN a.y = b.y /\ a.m = b.m /\ a.dd = b.dd
         ELSE IF za = Naive \/ zb = Naive THEN za = zb /\ a.y = b.y /\ a.m = b.m /\ a.dd = b.dd /\ a.H = b.H /\ a.M = b.M
         ELSE IF a.kind = "time" THEN ((a.H * 60 + a.M - za) - (b.H * 60 + b.M - zb)) % 1440 = 0
         ELSE LET ma == a.H * 60 + a.M - za  mb == b.H * 60 + b.M - zb IN     \* (TLC integers are 32-bit: keep days and minutes apart)
              /\ Ordinal(a.y, a.m, a.dd) + (ma \div 1440) = Ordinal(b.y, b.m, b.dd) + (mb \div 1440)
              /\ ma % 1440 = mb % 1440

(* ---------------- unquoted strings, identifiers ---------------- *)
HasSub2(s, c1, c2) == \E i \in 1..(Len(s) - 1) : s[i] = c1 /\ s[i + 1] = c2
UnquotedShape(d, s) == /\ s # <<>>
                       /\ \A i \in 1..Len(s) : s[i] \notin Reserved(d) /\ s[i] \notin WS
                       /\ ~HasSub2(s, 47, 42) /\ ~HasSub2(s, 42, 47)
IsIdentifier(s) == /\ s # <<>> /\ IsAlpha(s[1]) /\ s[Len(s)] # 95
                   /\ \A i \in 1..Len(s) : IsAlpha(s[i]) \/ IsDigit(s[i]) \/ s[i] = 95

(* ---------------- the classification ---------------- *)
Classify(d, s) ==
   IF EqFold(s, "NULL") THEN [c |-> "null", v |-> N("null", <<>>, <<>>)]
   ELSE IF EqFold(s, "TRUE") THEN [c |-> "true", v |-> N("bool", S("true"), <<>>)]
   ELSE IF EqFold(s, "FALSE") THEN [c |-> "false", v |-> N("bool", S("false"), <<>>)]
   ELSE IF IsQuoted(s) THEN [c |-> "quoted", v |-> N("str", QuotedValue(d, s), <<>>)]
   ELSE LET bp == BasedParts(d, s) IN
   IF bp # <<>> THEN [c |-> "based", v |-> N("int", Dec(bp[1]) \o <<58>> \o bp[2] \o bp[3], <<>>)]
   ELSE LET dk == DecimalKind(s) IN
   IF dk = "int" THEN [c |-> "int", v |-> N("int", S("10:") \o s, <<>>)]
   ELSE IF dk = "real" THEN [c |-> "real", v |-> N("real", s, <<>>)]
   ELSE LET tp == Temporal(d, s) IN
   IF tp.c # "no" THEN tp
   ELSE IF ~UnquotedShape(d, s) THEN [c |-> "nav", v |-> NoVal]
   ELSE IF KeywordKind(d, s) # "" THEN [c |-> "kw", v |-> NoVal]
   ELSE IF d = "ISIS" /\ (EqFold(s, "BEGIN_GROUP") \/ EqFold(s, "BEGIN_OBJECT")) THEN [c |-> "unspec", v |-> NoVal]
   ELSE IF OdlValues(d) /\ ~IsIdentifier(s) THEN [c |-> "nav", v |-> NoVal]
   ELSE [c |-> "unq", v |-> N("str", s, <<>>)]

ValueClasses == {"null", "true", "false", "quoted", "based", "int", "real", "date", "time", "datetime", "leap", "unq"}
IsValueClass(c) == c \in ValueClasses
(* may the text stand as a parameter or block name? (Token.is_parameter_name) *)
NameCapable(d, s) == /\ UnquotedShape(d, s) /\ KeywordKind(d, s) = ""
                     /\ Classify(d, s).c \in {"null", "true", "false", "unq", "nav"}
(* must an encoder quote the string s so that it reads back as the same string? *)
MustQuote(d, s) == Classify(d, s).c # "unq"
=============================================================================
