------------------------------- MODULE Frontends -------------------------------
(***************************************************************************)
(* C19 / C20: the pvl.new module and the two command-line tools are thin    *)
(* front ends of the library.  Their observable results are functions of    *)
(* the library's own results:                                               *)
(*                                                                         *)
(*  NewLoad(t)    = Retag(Load(t)) with the new container classes, and it    *)
(*                  succeeds exactly when the default load succeeds          *)
(*  NewDump(m, E) = Dump(m, E) (same text)                                   *)
(*  Translate(file, F) writes Dump(Load(file), Enc(F)) and fails iff that    *)
(*                  library call fails                                       *)
(*  Validate(files): one row per file, per dialect D a cell                   *)
(*                  [loads = LoadOK(D, file), encodes = DumpOK(D, load)]      *)
(***************************************************************************)
EXTENDS PvlText

NewClass(c) == CASE c = "PVLModule" -> "PVLModuleNew" [] c = "PVLGroup" -> "PVLGroupNew" [] c = "PVLObject" -> "PVLObjectNew" [] OTHER -> c
RECURSIVE AsNew(_)
AsNew(n) == N(NewClass(n.t), n.s, [i \in 1..Len(n.xs) |-> AsNew(n.xs[i])])

Formats == {"PDS3", "ODL", "ISIS", "PVL", "JSON"}
EncoderOf(f) == CASE f = "PDS3" -> "PDSLabelEncoder" [] f = "ODL" -> "ODLEncoder" [] f = "ISIS" -> "ISISEncoder" [] f = "PVL" -> "PVLEncoder" [] OTHER -> "json"
DialectRows == <<"PDS3", "ODL", "PVL", "ISIS", "Omni">>

(* a validate cell as the tool must report it, from the library outcome [loads, encodes] *)
Cell(lib) == [loads |-> lib.loads, encodes |-> IF lib.loads THEN (IF lib.encodes THEN "yes" ELSE "no") ELSE "n/a"]
=============================================================================
