-------------------------------- MODULE MC_Doc --------------------------------
(***************************************************************************)
(* The generator dual of the reference loader (C03, C04, C07, C19 ...).     *)
(* A behaviour builds a well-formed label as a sequence of token spellings  *)
(* with the kind of gap in front of each token ("opt": the grammar makes    *)
(* white space optional there, "req": some white space or comment is        *)
(* needed), together with the tree the grammars assign to it.  The tree is  *)
(* stated by the spelling tables below, independently of the recognisers    *)
(* in PvlValues / PvlLexer / PvlGrammar.  After the label is complete a     *)
(* layout is chosen; TLC checks for every (label, layout) that the          *)
(* reference loader reads exactly the generated tree (reader = writer on    *)
(* the model, and layout independence of the reference), and prints the     *)
(* text with the expected tree.                                            *)
(***************************************************************************)
EXTENDS PvlLoader, Json
CONSTANTS Dialect, MaxStmts, Profile, Emit

LF == <<10>>
Tk(t, g) == [t |-> t, g |-> g]
Str(x) == N("str", x, <<>>)
IntN(radix, digits) == N("int", Dec(radix) \o <<58>> \o digits, <<>>)
All == Dialects
PvlFam == {"PVL", "ISIS", "OMNI"}          \* PVL rules for unquoted values, units on anything, PVL sign position
OdlFam == {"ODL", "PDS3"}
Folding == Dialects \ {"PVL"}

(* ---- simple value spellings: [toks, v, ds, num] ---- *)
V1(txt, v, ds, num) == [toks |-> << Tk(txt, "req") >>, v |-> v, ds |-> ds, num |-> num]
Ints == { V1(S("1"), IntN(10, S("1")), All, TRUE), V1(S("-1"), IntN(10, S("-1")), All, TRUE), V1(S("+1"), IntN(10, S("+1")), All, TRUE),
          V1(S("007"), IntN(10, S("007")), All, TRUE), V1(S("0"), IntN(10, S("0")), All, TRUE) }
Based == { V1(S("2#101#"), IntN(2, S("101")), All, TRUE), V1(S("16#fF#"), IntN(16, S("fF")), All, TRUE),
           V1(S("-2#101#"), IntN(2, S("-101")), PvlFam, TRUE), V1(S("+16#FF#"), IntN(16, S("+FF")), PvlFam, TRUE),
           V1(S("8#777#"), IntN(8, S("777")), All, TRUE),
           V1(S("2#-101#"), IntN(2, S("-101")), OdlFam \cup {"OMNI"}, TRUE), V1(S("16#+fF#"), IntN(16, S("+fF")), OdlFam \cup {"OMNI"}, TRUE),
           V1(S("3#12#"), IntN(3, S("12")), OdlFam \cup {"OMNI"}, TRUE), V1(S("12#bA#"), IntN(12, S("bA")), OdlFam \cup {"OMNI"}, TRUE) }
Reals == { V1(S(x), N("real", S(x), <<>>), All, TRUE) : x \in {"1.", ".5", "1.5", "-1.5e+5", "1E5", "-.5e-5", "+0.0", "1e-7", "1.5E+3", "2E-2", "+.5E+05", "0e0"} }
Keywords == { V1(S("NULL"), N("null", <<>>, <<>>), All, FALSE), V1(S("null"), N("null", <<>>, <<>>), All, FALSE),
              V1(S("True"), N("bool", S("true"), <<>>), All, FALSE), V1(S("FALSE"), N("bool", S("false"), <<>>), All, FALSE) }
Quoted == { V1(S("\"a b\""), Str(S("a b")), All, FALSE), V1(S("'a b'"), Str(S("a b")), All, FALSE),
            V1(S("\"\""), Str(<<>>), All, FALSE), V1(S("''"), Str(<<>>), All, FALSE),
            V1(S("\"it's\""), Str(S("it's")), All, FALSE), V1(S("'say \"x\"'"), Str(S("say \"x\"")), All, FALSE),
            V1(S("\"/* c */\""), Str(S("/* c */")), All, FALSE), V1(S("\"a = b\""), Str(S("a = b")), All, FALSE),
            V1(S("\"END\""), Str(S("END")), All, FALSE), V1(S("'1'"), Str(S("1")), All, FALSE),
            V1(S("\"x  y\""), Str(S("x  y")), {"PVL"}, FALSE), V1(S("\"x  y\""), Str(S("x y")), Folding, FALSE),
            V1(S("\" x\""), Str(S(" x")), {"PVL"}, FALSE), V1(S("\" x\""), Str(S("x")), Folding, FALSE),
            V1(S("\"p") \o LF \o S("q\""), Str(S("p") \o LF \o S("q")), {"PVL"}, FALSE),
            V1(S("\"p") \o LF \o S("q\""), Str(S("p q")), Folding, FALSE),
            V1(S("\"p-") \o LF \o S("  q\""), Str(S("pq")), Folding, FALSE),
            V1(S("\"Jupi-") \o <<13, 10>> \o S("   ter\""), Str(S("Jupiter")), Folding, FALSE),
            V1(S("\"x-") \o LF \o LF \o <<9>> \o S("y z-") \o <<13>> \o S("w\""), Str(S("xy zw")), Folding, FALSE),
            V1(S("'a") \o <<9>> \o S("b ") \o <<13, 10>> \o S(" c'"), Str(S("a b c")), Folding, FALSE),
            \* characters only some character sets have: 7-bit controls (ODL family and the default), Latin-1 (PVL family and the default)
            V1(S("\"x") \o <<7>> \o S("y") \o <<127>> \o S("\""), Str(S("x") \o <<7>> \o S("y") \o <<127>>), {"ODL", "PDS3", "OMNI"}, FALSE),
            V1(S("'") \o <<233, 176>> \o S("'"), Str(<<233, 176>>), {"PVL", "ISIS", "OMNI"}, FALSE) }
Words == { V1(S(x), Str(S(x)), All, FALSE) : x \in {"a", "a_b", "Ab1"} }
    \cup { V1(S(x), Str(S(x)), PvlFam, FALSE) : x \in {"a-b", "N/A", "a:b", "^P", "9a", "a.b", "_a"} }
    \cup { V1(S("x+y"), Str(S("x+y")), {"ISIS", "OMNI"}, FALSE) }
Temporals == { V1(S("2001-01-01"), N("date", S("2001-01-01"), <<>>), All, FALSE),
               V1(S("2001-032"), N("date", S("2001-02-01"), <<>>), All, FALSE),
               V1(S("12:30"), N("time", S("12:30:00.000000|utc"), <<>>), All \ {"ODL"}, FALSE),
               V1(S("12:30"), N("time", S("12:30:00.000000|naive"), <<>>), {"ODL"}, FALSE),
               V1(S("12:30:45.5Z"), N("time", S("12:30:45.500000|utc"), <<>>), All, FALSE),
               V1(S("2001-01-01T12:30:45.123Z"), N("datetime", S("2001-01-01T12:30:45.123000|utc"), <<>>), All, FALSE),
               V1(S("12:30+01"), N("time", S("12:30:00.000000|off+60"), <<>>), {"ODL", "ISIS", "OMNI"}, FALSE),
               V1(S("2001-001T00:00:00-05:30"), N("datetime", S("2001-01-01T00:00:00.000000|off-330"), <<>>), {"ODL", "ISIS", "OMNI"}, FALSE),
               V1(S("23:59:60"), Str(S("23:59:60")), PvlFam, FALSE) }
Simple == Ints \cup Based \cup Reals \cup Keywords \cup Quoted \cup Words \cup Temporals
SimpleFor == { x \in Simple : Dialect \in x.ds }

(* ---- units ---- *)
UnitSp == { [t |-> S("<m>"), u |-> S("m")], [t |-> S("< m >"), u |-> S("m")], [t |-> S("<m/s>"), u |-> S("m/s")],
            [t |-> S("<m s>"), u |-> S("m s")], [t |-> S("<m**2>"), u |-> S("m**2")] }
WithU(x, u) == [toks |-> x.toks \o << Tk(u.t, "opt") >>, v |-> N("qty", u.u, << x.v >>), ds |-> x.ds, num |-> FALSE]
UnitsOK(x) == x.num \/ Dialect \in PvlFam

(* ---- collections ---- *)
Open(c) == IF c = "seq" THEN S("(") ELSE S("{")
Close(c) == IF c = "seq" THEN S(")") ELSE S("}")
Reg(toks) == [i \in 1..Len(toks) |-> IF i = 1 THEN Tk(toks[i].t, "opt") ELSE toks[i]]     \* first token of an element: gap optional
Coll0(c) == [toks |-> << Tk(Open(c), "req"), Tk(Close(c), "opt") >>, v |-> N(c, <<>>, <<>>), ds |-> All, num |-> FALSE]
Coll1(c, a) == [toks |-> << Tk(Open(c), "req") >> \o Reg(a.toks) \o << Tk(Close(c), "opt") >>, v |-> N(c, <<>>, << a.v >>), ds |-> a.ds, num |-> FALSE]
Coll2(c, a, b) == [toks |-> << Tk(Open(c), "req") >> \o Reg(a.toks) \o << Tk(S(","), "opt") >> \o Reg(b.toks) \o << Tk(Close(c), "opt") >>,
                   v |-> N(c, <<>>, << a.v, b.v >>), ds |-> a.ds \cap b.ds, num |-> FALSE]
One == V1(S("1"), IntN(10, S("1")), All, TRUE)
Two == V1(S("2"), IntN(10, S("2")), All, TRUE)
Wa == V1(S("a"), Str(S("a")), All, FALSE)
Qs == V1(S("'p q'"), Str(S("p q")), All, FALSE)
M == CHOOSE u \in UnitSp : u.t = S("<m>")
Colls == { Coll0("seq"), Coll0("set"), Coll1("seq", One), Coll1("set", Wa), Coll2("seq", One, Two), Coll2("set", Wa, Qs), Coll2("seq", Qs, Wa),
           Coll2("seq", WithU(One, M), Two), Coll2("seq", Coll2("seq", One, Two), Coll1("seq", Two)), Coll2("seq", Coll0("seq"), One) }
     \cup (IF Dialect \in OdlFam THEN {} ELSE { Coll2("set", One, Coll1("set", Two)), WithU(Coll2("seq", One, Two), M), Coll1("seq", Coll1("set", Wa)),
                                                Coll1("set", Coll2("seq", One, Two)) })

(* ---- value sets by profile ---- *)
Vfull == SimpleFor \cup { WithU(x, u) : x \in { y \in SimpleFor : UnitsOK(y) /\ y.toks[1].t \in {S("1"), S("1.5"), S("2#101#"), S("'a b'"), S("a")} }, u \in UnitSp }
         \cup { c \in Colls : Dialect \in c.ds }

LayoutTexts == { S("1"), S("-1.5e+5"), S("2#101#"), S("'a b'"), S("\"it's\""), S("a"), S("a-b"), S("NULL"), S("2001-01-01"),
                 S("12:30+01"), S("12:30:45.5Z"), S("x+y") }
Vlayout == { x \in SimpleFor : x.toks[1].t \in LayoutTexts } \cup { WithU(One, M), WithU(One, CHOOSE u \in UnitSp : u.t = S("< m >")) }
           \cup { c \in { Coll0("seq"), Coll2("seq", One, Two), Coll2("set", Wa, Qs), Coll2("seq", WithU(One, M), Two),
                           Coll2("seq", Coll2("seq", One, Two), Coll1("seq", Two)) } : Dialect \in c.ds }
R15 == V1(S("1.50"), N("real", S("1.50"), <<>>), All, TRUE)
Rexp == V1(S("-1.5e+5"), N("real", S("-1.5e+5"), <<>>), All, TRUE)
Zero == V1(S("0"), IntN(10, S("0")), All, TRUE)
RZero == V1(S("0.00"), N("real", S("0.00"), <<>>), All, TRUE)
RNegZero == V1(S("-0.0"), N("real", S("-0.0"), <<>>), All, TRUE)
Vhooks == Reals \cup Ints \cup { One, Wa, Coll2("seq", V1(S("+1"), IntN(10, S("+1")), All, TRUE), R15), WithU(V1(S("+1"), IntN(10, S("+1")), All, TRUE), M), WithU(R15, M), WithU(One, M), Coll2("seq", R15, One), Coll2("seq", WithU(R15, M), Rexp),
                       Coll2("seq", Coll2("seq", R15, One), Coll1("seq", Rexp)), Coll2("set", R15, Wa),
                       \* zero and negative-zero magnitudes: a value that is falsy in Python still carries its units
                       WithU(Zero, M), WithU(RZero, M), WithU(RNegZero, M), Coll2("seq", WithU(Zero, M), RNegZero) }
          \cup (IF Dialect \in OdlFam THEN {} ELSE { Coll2("set", One, Coll1("set", R15)), WithU(Coll2("seq", R15, Two), M), WithU(Wa, M),
                                                    Coll2("set", WithU(R15, M), Wa), Coll1("set", WithU(One, M)) })      \* quantities as members of a set
Vuse == IF Profile = "layout" THEN Vlayout ELSE IF Profile = "hooks" THEN Vhooks ELSE Vfull
NamesFull == { S("B2"), S("a_b"), S("ns:k"), S("^P"), S("x-y"), S("a.b"), S("9a") }
NamesMissing == { S("^P"), S("ns:k") }
GroupKw == { S("GROUP"), S("Group"), S("group") } \cup (IF Dialect = "ISIS" THEN {} ELSE { S("BEGIN_GROUP"), S("Begin_Group") })
ObjectKw == { S("OBJECT"), S("object") } \cup (IF Dialect = "ISIS" THEN {} ELSE { S("BEGIN_OBJECT") })
EndG == { S("END_GROUP"), S("End_Group"), S("end_group") }
EndO == { S("END_OBJECT"), S("End_Object") }
EndKw == { S("END"), S("End"), S("end") }

VARIABLES toks,    \* the label: sequence of [t, g]
          stk,     \* stack of open frames [cls, name, items]; stk[1] is the module
          nst,     \* number of statements (assignments and begin statements) emitted so far
          varied,  \* one statement of the label has been spelled from the full tables (all others are canonical)
          phase,   \* "build" | "ended" | "laid"
          lay      \* chosen layout
vars == <<toks, stk, nst, varied, phase, lay>>

Init == /\ toks = <<>> /\ stk = << [cls |-> "PVLModule", name |-> <<>>, items |-> <<>>] >>
        /\ nst = 0 /\ varied = FALSE /\ phase = "build" /\ lay = [k |-> "none", gap |-> 0, sep |-> 0]

First(g) == IF toks = <<>> THEN "none" ELSE g
Put(ts) == toks' = toks \o [i \in 1..Len(ts) |-> IF i = 1 THEN Tk(ts[i].t, First(ts[i].g)) ELSE ts[i]]
AddItem(it) == stk' = [stk EXCEPT ![Len(stk)].items = Append(@, it)]

Assign(nm, x, semi) ==
   /\ phase = "build" /\ nst < MaxStmts
   /\ Put(<< Tk(nm, "req"), Tk(S("="), "opt") >> \o Reg(x.toks) \o (IF semi THEN << Tk(S(";"), "opt") >> ELSE <<>>))
   /\ AddItem(N("item", nm, << x.v >>))
   /\ nst' = nst + 1 /\ UNCHANGED <<phase, lay>>
Begin(kw, cls, nm, semi) ==
   /\ phase = "build" /\ nst < MaxStmts - 1 /\ Len(stk) < 3
   /\ Put(<< Tk(kw, "req"), Tk(S("="), "opt"), Tk(nm, "opt") >> \o (IF semi THEN << Tk(S(";"), "opt") >> ELSE <<>>))
   /\ stk' = Append(stk, [cls |-> cls, name |-> nm, items |-> <<>>])
   /\ nst' = nst + 1 /\ UNCHANGED <<phase, lay>>
EndBlock(kw, named, semi) ==
   /\ phase = "build" /\ Len(stk) > 1 /\ stk[Len(stk)].items # <<>>
   /\ Put(<< Tk(kw, "req") >> \o (IF named THEN << Tk(S("="), "opt"), Tk(stk[Len(stk)].name, "opt") >> ELSE <<>>)
                              \o (IF semi THEN << Tk(S(";"), "opt") >> ELSE <<>>))
   /\ LET b == stk[Len(stk)] IN
      stk' = [SubSeq(stk, 1, Len(stk) - 1) EXCEPT ![Len(stk) - 1].items = Append(@, N("item", b.name, << N(b.cls, <<>>, b.items) >>))]
   /\ UNCHANGED <<nst, phase, lay>>
TailComment(n) == IF n = 1 THEN LF \o S("/* todo: life = 42 ( { */")
                  ELSE LF \o S("# x = 1 ( \" ") \o LF                   \* (ISIS / default grammars only)
Finish(kw, semi, trailer, tail) ==
   /\ phase = "build" /\ Len(stk) = 1 /\ stk[1].items # <<>>
   /\ (tail = 2 => HashComments(Dialect))
   /\ Put((IF kw = <<>> THEN <<>> ELSE << Tk(kw, "req") >>) \o (IF semi THEN << Tk(S(";"), "opt") >> ELSE <<>>)
          \o (IF trailer THEN << Tk(S("this is = ( not \" read"), "req") >> ELSE <<>>)
          \o (IF tail > 0 THEN << Tk(TailComment(tail), "req") >> ELSE <<>>))
   /\ phase' = "ended" /\ UNCHANGED <<stk, nst, lay>>

(* C08: an assignment whose value is missing; its placeholder carries the line of its '=', known once the layout is chosen *)
AssignMissing(nm, semi) ==
   /\ phase = "build" /\ nst < MaxStmts /\ Profile = "missing"
   /\ Put(<< Tk(nm, "req"), Tk(S("="), "opt") >> \o (IF semi THEN << Tk(S(";"), "opt") >> ELSE <<>>))
   /\ AddItem(N("item", nm, << N("emptyAt", Dec(Len(toks) + 2), <<>>) >>))      \* index of the '=' token
   /\ nst' = nst + 1 /\ UNCHANGED <<phase, lay>>
Vary == IF Profile = "random" THEN varied' = varied            \* random walks (TLC -simulate): any statement may use the full tables
        ELSE ~varied /\ varied' = TRUE /\ Profile # "missing"    \* (the missing-value profile keeps everything else canonical)        \* this statement is the one spelled from the full tables
Same == UNCHANGED varied
CanonName == IF nst % 2 = 0 THEN S("b") ELSE S("c")
EndOf(cls) == IF cls = "PVLGroup" THEN S("END_GROUP") ELSE S("END_OBJECT")
Build ==
   \/ Assign(CanonName, One, FALSE) /\ Same
   \/ \E semi \in BOOLEAN : AssignMissing(CanonName, semi) /\ Same
   \/ Profile = "missing" /\ MaxStmts <= 3 /\ ~varied /\ varied' = TRUE        \* one statement per label with a name that is not a plain identifier
      /\ \E nm \in NamesMissing : (Assign(nm, One, FALSE) \/ AssignMissing(nm, FALSE))
   \/ \E x \in Vuse, semi \in BOOLEAN : Assign(S("a"), x, semi) /\ Vary
   \/ \E nm \in NamesFull : Assign(nm, Qs, FALSE) /\ Vary
   \/ Begin(S("GROUP"), "PVLGroup", S("g1"), FALSE) /\ Same
   \/ Begin(S("OBJECT"), "PVLObject", S("Obj"), FALSE) /\ Same
   \/ \E kw \in GroupKw, semi \in BOOLEAN : Begin(kw, "PVLGroup", S("g:1"), semi) /\ Vary
   \/ \E kw \in ObjectKw, semi \in BOOLEAN : Begin(kw, "PVLObject", S("^O"), semi) /\ Vary
   \/ EndBlock(EndOf(stk[Len(stk)].cls), TRUE, FALSE) /\ Same
   \/ \E kw \in (IF stk[Len(stk)].cls = "PVLGroup" THEN EndG ELSE EndO), named \in BOOLEAN, semi \in BOOLEAN : EndBlock(kw, named, semi) /\ Vary
   \/ Finish(S("END"), FALSE, FALSE, 0) /\ Same
   \/ \E tail \in {1, 2} : Profile \in {"missing", "random"} /\ Finish(<<>>, FALSE, FALSE, tail) /\ Same
   \/ \E kw \in EndKw \cup {<<>>}, semi \in BOOLEAN, trailer \in BOOLEAN : (kw # <<>> \/ (~semi /\ ~trailer)) /\ Finish(kw, semi, trailer, 0) /\ Vary

(* ---- layouts ---- *)
SepsBase == << <<32>>, <<9>>, <<10>>, <<13>>, <<11>>, <<12>>, <<13, 10>>, <<32, 32>>, <<32, 10, 32>>,
               S("/**/"), S("/* c */"), S(" /* c */ "), S("/* * / */"), S("/*/ x */"), S("/***/"), S("/* a") \o LF \o S("b */"),
               S("/* \" ' */"), S("/* = */"), S("/* END */"), S("/**//**/"), S("/* < */"), S("/* in data/*/"), S("/* see #3 */") >>
SepsHash == << S(" # c") \o LF, LF \o S("#c") \o LF \o S("  "), S(" # /* c") \o LF, S(" # = END ' \"") \o LF, S(" # -- ") \o LF >>
Seps == IF HashComments(Dialect) THEN SepsBase \o SepsHash ELSE SepsBase
Styles == << [opt |-> <<>>, req |-> <<32>>], [opt |-> <<32>>, req |-> <<10>>], [opt |-> <<9>>, req |-> <<13, 10, 32, 32>>],
            [opt |-> <<10>>, req |-> <<10, 10>>],          \* every token on its own line, blank lines between statements
            [opt |-> S("/**/"), req |-> S(" /* c */ ")] >>   \* a comment in every gap

ChooseLayout ==
   /\ phase = "ended" /\ phase' = "laid" /\ UNCHANGED <<toks, stk, nst, varied>>
   /\ \/ \E sty \in 1..Len(Styles) : lay' = [k |-> "style", gap |-> 0, sep |-> sty]
      \/ /\ Profile \in {"layout", "missing"}
         /\ \E gi \in 2..Len(toks), si \in 0..Len(Seps) :
              /\ (si = 0 => toks[gi].g = "opt")                 \* removing the separator: only where optional
              /\ lay' = [k |-> "one", gap |-> gi, sep |-> si]
Next == Build \/ ChooseLayout
Spec == Init /\ [][Next]_vars

SepFor(i) == IF lay.k = "style" THEN (IF toks[i].g = "opt" THEN Styles[lay.sep].opt ELSE Styles[lay.sep].req)
             ELSE IF i = lay.gap THEN (IF lay.sep = 0 THEN <<>> ELSE Seps[lay.sep])
             ELSE IF toks[i].g = "opt" THEN <<>> ELSE <<32>>
RECURSIVE Concat(_)
Concat(i) == IF i > Len(toks) THEN <<>> ELSE (IF i = 1 THEN <<>> ELSE SepFor(i)) \o toks[i].t \o Concat(i + 1)
Text == Concat(1)
RECURSIVE Before(_)                 \* the text in front of token k
Before(k) == IF k = 1 THEN <<>> ELSE Before(k - 1) \o toks[k - 1].t \o SepFor(k)
TokLine(k) == 1 + LFsIn(Before(k), 1, Len(Before(k)) + 1)
RECURSIVE Resolve(_)
Resolve(n) == IF n.t = "emptyAt" THEN Empty(TokLine(NumVal(n.s)))
              ELSE N(n.t, n.s, [k \in 1..Len(n.xs) |-> Resolve(n.xs[k])])
RECURSIVE MissingLines(_)
MissingLines(n) == IF n.t = "emptyAt" THEN << TokLine(NumVal(n.s)) >>
                   ELSE IF n.xs = <<>> THEN <<>> ELSE LET RECURSIVE Cat(_)
                                                        Cat(k) == IF k > Len(n.xs) THEN <<>> ELSE MissingLines(n.xs[k]) \o Cat(k + 1)
                                                    IN Cat(1)
RawTree == N("PVLModule", <<>>, stk[1].items)
Tree == Resolve(RawTree)
Errs == MissingLines(RawTree)

(* reader = writer on the model, for every layout *)
RefReadsGenerated == phase = "laid" =>
    LET o == Load(Dialect, Text) IN
    IF Errs # <<>> /\ ~Tolerant(Dialect) THEN o.verdict = "reject"          \* the strict dialects do not tolerate a missing value
    ELSE o.verdict = "accept" /\ o.tree = Tree /\ o.errs = Errs
(* ---- C18: what the tree becomes when the caller substitutes classes ---- *)
Hooks == { [id |-> "decimal",  real |-> "decimal",  qty |-> "qty",        mod |-> "PVLModule", grp |-> "PVLGroup", obj |-> "PVLObject"],
           [id |-> "recording", real |-> "RecStr",  qty |-> "qty:RecQty", mod |-> "MyModule",  grp |-> "MyGroup",  obj |-> "MyObject"],
           [id |-> "fraction", real |-> "fraction", qty |-> "qty:RecQty", mod |-> "PVLModule", grp |-> "PVLGroup", obj |-> "PVLObject"] }
RECURSIVE Retag(_, _)
Retag(n, h) ==
   LET kids == [i \in 1..Len(n.xs) |-> Retag(n.xs[i], h)] IN
   CASE n.t = "real"      -> N(h.real, n.s, kids)      \* the written text, unaltered, goes to the real-number class
     [] n.t = "qty"       -> N(h.qty, n.s, kids)
     [] n.t = "PVLModule" -> N(h.mod, n.s, kids)
     [] n.t = "PVLGroup"  -> N(h.grp, n.s, kids)
     [] n.t = "PVLObject" -> N(h.obj, n.s, kids)
     [] OTHER             -> N(n.t, n.s, kids)         \* integers stay integers, nothing else changes
RECURSIVE HasTag(_, _)
HasTag(n, tags) == n.t \in tags \/ \E i \in 1..Len(n.xs) : HasTag(n.xs[i], tags)
(* substituting changes only the listed tags: mapping them back gives the original tree *)
Back(h) == [id |-> "back", real |-> "real", qty |-> "qty", mod |-> "PVLModule", grp |-> "PVLGroup", obj |-> "PVLObject"]
RECURSIVE Untag(_, _)
Untag(n, h) ==
   LET kids == [i \in 1..Len(n.xs) |-> Untag(n.xs[i], h)] IN
   N(CASE n.t = h.real -> "real" [] n.t = h.qty -> "qty" [] n.t = h.mod -> "PVLModule" [] n.t = h.grp -> "PVLGroup"
       [] n.t = h.obj -> "PVLObject" [] OTHER -> n.t, n.s, kids)
RetagChangesNothingElse == phase = "laid" => \A h \in Hooks : Untag(Retag(Tree, h), h) = Tree
EmitCase == (Emit /\ phase = "laid") =>
   PrintT(ToJson([text |-> Text, tree |-> Tree, errs |-> Errs, lay |-> lay, ntok |-> Len(toks), toks |-> [k \in 1..Len(toks) |-> toks[k].t],
                  rt |-> IF Profile = "hooks" THEN [h \in {x.id : x \in Hooks} |-> Retag(Tree, CHOOSE x \in Hooks : x.id = h)] ELSE <<>>]))
=============================================================================
