------------------------------- MODULE Session -------------------------------
(***************************************************************************)
(* C16: a parser / decoder / encoder instance carries no state between      *)
(* calls.  Reference: the outcome of Call(i) on a reused instance is the    *)
(* outcome Fresh(i) a new instance gives for input i alone.                 *)
(*                                                                         *)
(* MC part (MC_Session.cfg): all call histories <= D over NInputs inputs;   *)
(* the implementation-shaped parser (an `errors` list initialised in the    *)
(* constructor) is compared with the reference: with Reset = FALSE (the     *)
(* code before the fix: errors never cleared) TLC exhibits the leak, with   *)
(* Reset = TRUE (parse() clears it) the invariant holds.  Every history is  *)
(* printed as a case.                                                       *)
(***************************************************************************)
EXTENDS Naturals, Sequences, TLC, Json
CONSTANTS NInputs, D, Reset, Emit

(* abstract inputs: input i has i-1 missing values (on lines i*10+1 ..) when it is odd; even inputs have none *)
NewErrs(i) == IF i % 2 = 1 THEN [j \in 1..((i + 1) \div 2) |-> i * 10 + j] ELSE <<>>

VARIABLES hist, errs, lastResult
vars == <<hist, errs, lastResult>>
Init == hist = <<>> /\ errs = <<>> /\ lastResult = <<>>
Call(i) == /\ Len(hist) < D
           /\ hist' = Append(hist, i)
           /\ errs' = (IF Reset THEN <<>> ELSE errs) \o NewErrs(i)
           /\ lastResult' = errs'           \* module.errors = sorted(self.errors)
Next == \E i \in 1..NInputs : Call(i)
Spec == Init /\ [][Next]_vars

Fresh(i) == NewErrs(i)
NoLeak == hist # <<>> => lastResult = Fresh(hist[Len(hist)])
EmitHist == (Emit /\ Len(hist) = D) => PrintT(ToJson([h |-> hist]))
=============================================================================
