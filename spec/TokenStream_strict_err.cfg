SPECIFICATION Spec
CONSTANT N = 4
CONSTANT Ending = "error"
CONSTANT Discipline = "strict"
CONSTANT MaxOps = 12
INVARIANT TypeOK
INVARIANT NetStream
INVARIANT OnlyLexerErrors
PROPERTY SendReturnsNone
CHECK_DEADLOCK FALSE
