------------------------------ MODULE Trace_Entry ------------------------------
(* Judges recorded entry-point runs (C09).  Event kinds:                          *)
(*  "read": [bytes, whole (all bytes were sent), results: entry -> [kind, tree,    *)
(*           errors], after: entry -> tokens requested after the END token]        *)
(*  "dump": [target, text_digest, written_digest, returned, length]                *)
EXTENDS PvlEntry, Json, IOUtils, SequencesExt
Events == JsonDeserialize(IOEnv.TRACE_FILE)
VARIABLES i
Init == i \in 1..Len(Events)
Next == FALSE /\ i' = i
Spec == Init /\ [][Next]_i
E == Events[i]
F(name, ok) == IF ok THEN <<>> ELSE <<name>>
(* "read" events: the reference outcome is printed; trees are compared by the harness after numeral
   canonicalisation (int(), float() are trusted to Python) *)
DumpFails(e) == F("dump-target-differs", e.written_digest = e.text_digest) \o F("dump-length", e.returned = e.length)
Verdict == PrintT(ToJson(IF E.ev = "read" THEN [i |-> i, o |-> Read("any", E.bytes), whole |-> WholeDecodable(E.bytes),
                                                   strict |-> [d \in {"PVL", "ISIS"} |-> Load(d, DecodablePrefix(E.bytes))]]
                         ELSE [i |-> i, fails |-> DumpFails(E)]))
=============================================================================
