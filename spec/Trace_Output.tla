------------------------------ MODULE Trace_Output ------------------------------
(***************************************************************************)
(* Judges texts written by the real encoders (C12, and the reference side   *)
(* of C01/C02).  Event:                                                     *)
(*   [E, text, m, cfg: [indent, width, nl ("LF" | "CRLF"), aggend, delim,    *)
(*    tabrep]]                                                               *)
(* The independent reader of the text is the reference lexer and grammar of  *)
(* the encoder's dialect; the layout rules are predicates over the tokens    *)
(* it finds (with their line / column) and the gaps between them.            *)
(* Printed per event: the failing layout clauses, the reference reading of   *)
(* the text, and Norm(E, P, m) for P = E and P = OMNI.                       *)
(***************************************************************************)
EXTENDS PvlWriter, Json, IOUtils
Events == JsonDeserialize(IOEnv.TRACE_FILE)
VARIABLES i
Init == i \in 1..Len(Events)
Next == FALSE /\ i' = i
Spec == Init /\ [][Next]_i
E == Events[i]
F(name, ok) == IF ok THEN <<>> ELSE <<name>>

NL(cfg) == IF cfg.nl = "CRLF" THEN <<13, 10>> ELSE <<10>>
StrictCfgOf(d) == CASE d = "PVL" -> StrictCfg [] d \in {"ODL", "PDS3"} -> OdlCfg [] OTHER -> StrictCfg   \* ISIS output must not rely on repairs

(* ---- tokens with positions, and the statement structure, by replaying the reference machines ---- *)
ColOf0(t, b) == LET S0 == {h \in 1..(b - 1) : t[h] = 10} IN
                (b - 1) - (IF S0 = {} THEN 0 ELSE CHOOSE h \in S0 : \A g \in S0 : g <= h)     \* 0-based column of index b
(* statement records: [kind, level, blk, name, b (index of first token), eq (index of '=' or 0), e (index after last token)] *)
RECURSIVE Walk(_, _, _, _, _, _, _, _)
Walk(d, t, i0, g, blks, nextblk, cur, acc) ==
   (* blks: stack of block ids; cur: the statement being read ([kind |-> ""] if none); acc: finished statements *)
   LET raw == RawTok(d, t, i0)
       fin == IF cur.kind = "" THEN acc ELSE Append(acc, cur)
   IN IF raw.rk \in {"eof", "bad"} THEN [stmts |-> fin, g |-> GEof(StrictCfgOf(d), g), stop |-> i0, comments |-> FALSE]
      ELSE IF raw.rk = "ws" THEN Walk(d, t, raw.e, g, blks, nextblk, cur, acc)
      ELSE IF raw.rk = "C" THEN [stmts |-> fin, g |-> g, stop |-> i0, comments |-> TRUE]
      ELSE LET tk == Tok(d, t, raw, 1)
               g2 == GStep(StrictCfgOf(d), g, tk)
               starts == tk.k \in {"W", "BG", "BO", "EG", "EO", "END"} /\ ~InColl(g)
                         /\ g.phase \in {"stmt", "bn", "e", "en", "av", "avu"}
               depth == Len(g.stk) - 1 - (IF g.phase \in {"e", "en"} THEN 1 ELSE 0)   \* an end statement just read has not popped its frame yet
               level == IF tk.k \in {"EG", "EO"} THEN depth - 1 ELSE depth
               newcur == [kind |-> CASE tk.k = "W" -> "assign" [] tk.k \in {"BG", "BO"} -> "begin"
                                     [] tk.k \in {"EG", "EO"} -> "end" [] OTHER -> "END",
                          level |-> level, blk |-> IF tk.k \in {"EG", "EO"} /\ Len(blks) > 1 THEN blks[Len(blks) - 1] ELSE blks[Len(blks)],
                          name |-> SubSeq(t, raw.b, raw.e - 1), b |-> raw.b, eq |-> 0, e |-> raw.e,
                          semi |-> FALSE, named |-> FALSE]
               cur2 == IF starts THEN newcur
                       ELSE IF cur.kind = "" THEN cur
                       ELSE [cur EXCEPT !.e = raw.e,
                                        !.eq = IF tk.k = "=" /\ cur.eq = 0 THEN raw.b ELSE @,
                                        !.semi = (tk.k = ";"),
                                        !.named = @ \/ (cur.kind = "end" /\ tk.k = "=")]
               acc2 == IF starts /\ cur.kind # "" THEN Append(acc, cur) ELSE acc
               blks2 == IF tk.k \in {"BG", "BO"} THEN Append(blks, nextblk)
                        ELSE IF tk.k \in {"EG", "EO"} /\ Len(blks) > 1 THEN SubSeq(blks, 1, Len(blks) - 1) ELSE blks
               next2 == IF tk.k \in {"BG", "BO"} THEN nextblk + 1 ELSE nextblk
           IN IF g2.verdict = "accept" THEN [stmts |-> Append(acc2, cur2), g |-> g2, stop |-> raw.e, comments |-> FALSE]
              ELSE IF g2.verdict = "reject" THEN [stmts |-> acc2, g |-> g2, stop |-> raw.b, comments |-> FALSE]
              ELSE Walk(d, t, raw.e, g2, blks2, next2, cur2, acc2)
NoStmt == [kind |-> "", level |-> 0, blk |-> 0, name |-> <<>>, b |-> 0, eq |-> 0, e |-> 0, semi |-> FALSE, named |-> FALSE]

(* all the text outside quoted strings: the gaps and the tokens; quoted strings are exempt from the white-space rules *)
RECURSIVE OutsideQuotes(_, _, _)
OutsideQuotes(d, t, i0) ==
   LET raw == RawTok(d, t, i0) IN
   IF raw.rk \in {"eof", "bad"} THEN SubSeq(t, i0, Len(t))
   ELSE IF raw.rk = "Q" THEN <<34, 34>> \o OutsideQuotes(d, t, raw.e)
   ELSE SubSeq(t, raw.b, raw.e - 1) \o OutsideQuotes(d, t, raw.e)

SpacesBefore(t, b) == \* number of spaces immediately before index b back to the previous newline / start, and whether only spaces
   LET S0 == {h \in 1..(b - 1) : t[h] # 32} IN IF S0 = {} THEN [n |-> b - 1, atLineStart |-> TRUE]
   ELSE LET h == CHOOSE x \in S0 : \A y \in S0 : y <= x IN [n |-> b - 1 - h, atLineStart |-> t[h] = 10]

IsOdlName(s) == LET body == IF s # <<>> /\ s[1] = 94 THEN Tail(s) ELSE s
                    colon == {h \in 1..Len(body) : body[h] = 58}
                    upperId(x) == IsIdentifier(x) /\ \A h \in 1..Len(x) : ~IsLower(x[h])
                IN /\ Len(s) <= 30
                   /\ IF colon = {} THEN upperId(body)
                      ELSE LET c == CHOOSE h \in colon : \A g \in colon : h <= g
                           IN upperId(SubSeq(body, 1, c - 1)) /\ upperId(SubSeq(body, c + 1, Len(body)))

Fails(e) ==
  LET d == e.E   t == e.text   cfg == e.cfg
      w == Walk(d, t, 1, GInit, <<0>>, 1, NoStmt, <<>>)
      st == w.stmts
      wellformed == w.g.verdict = "accept" /\ ~w.comments /\ st # <<>> /\ st[Len(st)].kind = "END"
      tail == SubSeq(t, w.stop, Len(t))
      lastS == st[Len(st)]
      out == OutsideQuotes(d, t, 1)
      nl == NL(cfg)
      assigns(b) == { k \in 1..Len(st) : st[k].kind = "assign" /\ st[k].blk = b }
      maxkey(b) == LET L == { Len(st[k].name) : k \in assigns(b) } IN CHOOSE x \in L : \A y \in L : y <= x
      oneLine(s) == LFsIn(t, s.b, s.e) = 0
      lineLen(s) == LET nxt == Find(t, s.e, 10) IN (IF nxt = 0 THEN Len(t) + 1 ELSE nxt) - s.b + ColOf0(t, s.b)
                    - (IF cfg.nl = "CRLF" /\ Find(t, s.e, 10) # 0 THEN 1 ELSE 0)
      eqOwn(s) == s.level * cfg.indent + Len(s.name) + 1
      eqAligned(s) == s.level * cfg.indent + maxkey(s.blk) + 1
  IN F("characters", \A h \in 1..Len(t) : Allowed(d, t[h]))
  \o F("tab-in-pds3-output", ~(d = "PDS3" /\ cfg.tabrep > 0) \/ \A h \in 1..Len(t) : t[h] # 9)
  \o F("not-well-formed", wellformed)
  \o (IF ~wellformed THEN <<>> ELSE
        F("end-tail", tail = (IF cfg.delim /\ d \notin {"ODL", "PDS3"} THEN <<59>> ELSE <<>>) \o (IF d \in {"ODL", "PDS3"} THEN nl ELSE <<>>))
     \o F("white-space-other-than-space-and-newline",
                /\ \A h \in 1..Len(out) : out[h] \notin {9, 11, 12}
                /\ (cfg.nl = "LF" => \A h2 \in 1..Len(out) : out[h2] # 13)
                /\ (cfg.nl = "CRLF" => \A h3 \in 1..Len(out) : (out[h3] = 13 => h3 < Len(out) /\ out[h3 + 1] = 10)
                                                             /\ (out[h3] = 10 => h3 > 1 /\ out[h3 - 1] = 13)))
     \o F("statement-indentation", \A k \in 1..Len(st) :
                LET sb == SpacesBefore(t, st[k].b - (IF cfg.nl = "CRLF" /\ st[k].b > 1 /\ FALSE THEN 1 ELSE 0)) IN
                /\ (st[k].b = 1 \/ sb.atLineStart)
                /\ ColOf0(t, st[k].b) = st[k].level * cfg.indent)
     \o F("equals-alignment", \A k \in 1..Len(st) : (st[k].kind = "assign" /\ st[k].eq # 0 /\ oneLine(st[k])) =>
                LET c == ColOf0(t, st[k].eq) IN
                \/ c = eqAligned(st[k])
                \/ (c = eqOwn(st[k]) /\ lineLen(st[k]) - Len(st[k].name) + maxkey(st[k].blk) + Len(nl) > cfg.width))
     \o F("block-keywords", \A k \in 1..Len(st) :
                LET nm == st[k].name  grp == KeywordKind(d, nm) \in {"BG", "EG"} IN
                /\ st[k].kind = "begin" => nm = (CASE d = "PVL" -> IF grp THEN S("BEGIN_GROUP") ELSE S("BEGIN_OBJECT")
                                                   [] d = "ISIS" -> IF grp THEN S("Group") ELSE S("Object")
                                                   [] OTHER -> IF grp THEN S("GROUP") ELSE S("OBJECT"))
                /\ st[k].kind = "end" => nm = (CASE d = "ISIS" -> IF grp THEN S("End_Group") ELSE S("End_Object")
                                                 [] OTHER -> IF grp THEN S("END_GROUP") ELSE S("END_OBJECT"))
                /\ st[k].kind = "END" => nm = S("END"))
     \o F("end-statement-name", \A k \in 1..Len(st) : st[k].kind = "end" => (st[k].named <=> cfg.aggend))
     \o F("statement-delimiters", \A k \in 1..Len(st) : st[k].kind # "END" => (st[k].semi <=> (cfg.delim /\ d \notin {"ODL", "PDS3"})))
     \o F("odl-parameter-names", d \in {"ODL", "PDS3"} => \A k \in 1..Len(st) : st[k].kind = "assign" => IsOdlName(st[k].name)))

RECURSIVE Unprefix(_)      \* the event's module writes integers as "10:digits" (the reader's form); the writer wants the digits
Unprefix(n) == N(n.t, IF n.t = "int" THEN SubSeq(n.s, 4, Len(n.s)) ELSE n.s, [k \in 1..Len(n.xs) |-> Unprefix(n.xs[k])])
(* what the str leaves of the module look like to the dialect's classifier (signature features for findings) *)
RECURSIVE StrClasses(_, _)
StrClasses(d, n) == (IF n.t = "str" THEN {Classify(d, n.s).c} ELSE {}) \cup UNION { StrClasses(d, n.xs[k]) : k \in 1..Len(n.xs) }
Verdict == PrintT(ToJson(
    IF E.refused THEN [i |-> i, fails |-> <<>>, o |-> [verdict |-> "refused"], norm |-> NoVal, normomni |-> NoVal, strs |-> {},
                       w |-> IF E.dflt THEN Write(E.E, Unprefix(E.m)) ELSE <<>>]
    ELSE [i |-> i, fails |-> Fails(E), o |-> Load(E.E, E.text),
          norm |-> NormModule(E.E, E.E, E.m), normomni |-> NormModule(E.E, "OMNI", E.m), strs |-> StrClasses(E.E, E.m),
          w |-> IF E.dflt THEN Write(E.E, Unprefix(E.m)) ELSE <<>>]))   \* the reference writer's text (binding diagnostic only)
=============================================================================
