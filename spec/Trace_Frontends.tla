---------------------------- MODULE Trace_Frontends ----------------------------
(* Judges recorded runs of pvl.new and of the command-line tools against          *)
(* Frontends.tla.  Events:                                                        *)
(*  "new":       [old: [ok, tree], new: [ok, tree], dumps: seq of [enc, old, new]] *)
(*  "translate": [fmt, tool: [ok, text], lib: [ok, text], encoder (class the tool   *)
(*                used), json_ok]                                                  *)
(*  "validate":  [nfiles, rows: seq of [file, cells: D -> [loads, encodes]],        *)
(*                lib: seq of [file, cells: D -> [loads, encodes]], completed]      *)
EXTENDS Frontends, Json, IOUtils, SequencesExt
Events == JsonDeserialize(IOEnv.TRACE_FILE)
VARIABLES i
Init == i \in 1..Len(Events)
Next == FALSE /\ i' = i
Spec == Init /\ [][Next]_i
E == Events[i]
F(name, ok) == IF ok THEN <<>> ELSE <<name>>
RECURSIVE Flat(_)
Flat(ss) == IF ss = <<>> THEN <<>> ELSE ss[1] \o Flat(Tail(ss))

NewFails(e) ==
      F("succeeds-differently", e.old.ok = e.new.ok)
   \o (IF e.old.ok /\ e.new.ok THEN
          F("content-or-classes-differ", e.new.tree = AsNew(e.old.tree))
       \o Flat([k \in 1..Len(e.dumps) |-> F("dump-differs:" \o e.dumps[k].enc, e.dumps[k].old = e.dumps[k].new)])
       ELSE <<>>)
TranslateFails(e) ==
      F("fails-differently", e.tool.ok = e.lib.ok)
   \o F("wrong-encoder", e.fmt = "JSON" \/ e.encoder = EncoderOf(e.fmt))
   \o (IF e.tool.ok /\ e.lib.ok THEN (IF e.fmt = "JSON" THEN F("json-content", e.json_ok) ELSE F("text-differs", e.tool.text = e.lib.text)) ELSE <<>>)
ValidateFails(e) ==
      F("did-not-complete", e.completed)
   \o (IF ~e.completed THEN <<>> ELSE
          F("row-per-file", Len(e.rows) = e.nfiles /\ \A k \in 1..Len(e.rows) : e.rows[k].file = e.lib[k].file)
       \o (IF Len(e.rows) # e.nfiles THEN <<>> ELSE
           Flat([k \in 1..Len(e.rows) |->
              Flat([d \in 1..Len(DialectRows) |->
                 LET D == DialectRows[d]  c == e.rows[k].cells[D]  want == Cell(e.lib[k].cells[D]) IN
                    F("loads-cell:" \o D, c.loads = want.loads) \o F("encodes-cell:" \o D, c.encodes = want.encodes)])])))
Verdict == PrintT(ToJson([i |-> i, fails |-> CASE E.ev = "new" -> NewFails(E) [] E.ev = "translate" -> TranslateFails(E) [] OTHER -> ValidateFails(E)]))
=============================================================================
