------------------------------ MODULE MC_Calendar ------------------------------
(* The calendar the date grammar rests on, for every year 0001-9999: leap flag   *)
(* and month lengths (printed as a table that the harness expands into all       *)
(* 3 652 059 dates in both forms), with the lemma that the day-of-year form and   *)
(* the month/day form name the same days.                                        *)
EXTENDS PvlValues, Json
VARIABLE y
Init == y \in 1..9999
Next == FALSE /\ y' = y
Spec == Init /\ [][Next]_y
YearLen == IF IsLeapYear(y) THEN 366 ELSE 365
SumMonths == DaysBeforeMonth(y, 12) + DaysIn(y, 12)
CalendarLemma == /\ SumMonths = YearLen
                 /\ DoyToMD(y, 1, YearLen) = <<12, 31>>
                 /\ DoyToMD(y, 1, 60) = (IF IsLeapYear(y) THEN <<2, 29>> ELSE <<3, 1>>)
                 /\ DaysBeforeYear(y + 1) - DaysBeforeYear(y) = YearLen
EmitRow == PrintT(ToJson([y |-> y, leap |-> IsLeapYear(y), months |-> [m \in 1..12 |-> DaysIn(y, m)]]))
=============================================================================
