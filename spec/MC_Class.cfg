SPECIFICATION Spec
CONSTANT MaxLen = 3
CONSTANT Emit = TRUE
INVARIANT ClassTotal
INVARIANT NumbersAreNotNames
INVARIANT UnquotedDenotesItself
INVARIANT EmitCase
CHECK_DEADLOCK FALSE
