------------------------------ MODULE PvlLexer ------------------------------
(***************************************************************************)
(* Reference lexical machine (DESIGN.md appendix B).  RawTok(d, t, i)       *)
(* scans one lexical element of the text t (a sequence of code points)      *)
(* starting at index i (1-based) and returns                                *)
(*   [rk, b, e, err, open]                                                  *)
(* rk   : "eof" | "ws" | "C" comment | "Q" quoted | "U" units | "P"         *)
(*        punctuation | "W" word | "J" junk (a lone reserved character)     *)
(* b, e : the element is t[b .. e-1]                                        *)
(* err  : "" or the reason the text is lexically ill-formed here            *)
(*        ("char" disallowed character at e, "unterminated-quote", ...)     *)
(* open : TRUE when the specifications leave the reading of this place open *)
(*        (a '#' comment not set off by white space or not ended by a line  *)
(*        end, a units expression glued to the next word)                   *)
(* Tok(d, t, raw) classifies a raw element into a grammar token.            *)
(***************************************************************************)
EXTENDS PvlValues, FiniteSets

R(rk, b, e, err, open) == [rk |-> rk, b |-> b, e |-> e, err |-> err, open |-> open]

(* first index >= i holding a disallowed character, 0 if none before index e *)
RECURSIVE BadIn(_, _, _, _)
BadIn(d, t, i, e) == IF i >= e THEN 0 ELSE IF ~Allowed(d, t[i]) THEN i ELSE BadIn(d, t, i + 1, e)

IsBoundary(d, t, j) == j > Len(t) \/ t[j] \in WS \/ t[j] \in Reserved(d) \/ StartsAt(t, j, <<47, 42>>)

(* end (exclusive) of the maximal run of word characters from i *)
RECURSIVE WordEnd(_, _, _)
WordEnd(d, t, i) == IF i > Len(t) \/ t[i] \in WS \/ t[i] \in Reserved(d) \/ StartsAt(t, i, <<47, 42>>)
                       \/ ~Allowed(d, t[i]) THEN i
                    ELSE WordEnd(d, t, i + 1)

(* ---- numeric look-ahead: ends (exclusive) of the number-like texts anchored at i, 0 if none ---- *)
DecimalEndAt(t, i) ==
   LET n == Len(t)
       b  == IF i <= n /\ IsSign(t[i]) THEN i + 1 ELSE i
       e1 == DigitsEnd(t, b)
       dot == e1 <= n /\ t[e1] = 46
       e2 == IF dot THEN DigitsEnd(t, e1 + 1) ELSE e1
       mantOK == e1 > b \/ (dot /\ e2 > e1 + 1)
       ex == e2 <= n /\ t[e2] \in {101, 69}
       b3 == IF ex /\ e2 + 1 <= n /\ IsSign(t[e2 + 1]) THEN e2 + 2 ELSE e2 + 1
       e3 == IF ex THEN DigitsEnd(t, b3) ELSE e2
   IN IF ~mantOK THEN 0 ELSE IF ex /\ e3 > b3 THEN e3 ELSE e2
BasedEndAt(d, t, i) ==
   LET n == Len(t)
       b == IF i <= n /\ IsSign(t[i]) THEN i + 1 ELSE i
       re == DigitsEnd(t, b)
       hash == re > b /\ re <= n /\ t[re] = 35
       db == IF hash /\ re + 1 <= n /\ IsSign(t[re + 1]) THEN re + 2 ELSE re + 1
       de == IF hash THEN HexEnd(t, db) ELSE 0
   IN IF hash /\ de > db /\ de <= n /\ t[de] = 35 /\ BasedParts(d, SubSeq(t, i, de)) # <<>> THEN de + 1 ELSE 0
(* a time or date-time followed by a zone offset: the sign must not split the word *)
RECURSIVE TemporalRunEnd(_, _)
TemporalRunEnd(t, i) == IF i <= Len(t) /\ (IsDigit(t[i]) \/ t[i] \in {45, 58, 46, 84, 90, 43}) THEN TemporalRunEnd(t, i + 1) ELSE i
OffsetTimeEndAt(d, t, i) ==
   LET e == TemporalRunEnd(t, i)
       w == SubSeq(t, i, e - 1)
   IN IF HasOffsets(d) /\ e > i /\ IsDigit(t[i]) /\ Temporal(d, w).c \in {"time", "datetime"} THEN e ELSE 0
Max2(a, b) == IF a > b THEN a ELSE b
NumberEndAt(d, t, i) ==
   LET cands == << DecimalEndAt(t, i), BasedEndAt(d, t, i), OffsetTimeEndAt(d, t, i) >>
       ok(e) == IF e > 0 /\ IsBoundary(d, t, e) THEN e ELSE 0
   IN Max2(ok(cands[1]), Max2(ok(cands[2]), ok(cands[3])))

Punct == {61, 44, 59, 40, 41, 123, 125}     \* = , ; ( ) { }

RawTok(d, t, i) ==
   LET n == Len(t) IN
   IF i > n THEN R("eof", i, i, "", FALSE)
   ELSE LET c == t[i] IN
   IF ~Allowed(d, c) THEN R("bad", i, i, "char", FALSE)
   ELSE IF c \in WS THEN R("ws", i, SkipWsRun(t, i), "", FALSE)
   ELSE IF StartsAt(t, i, <<47, 42>>) THEN                                   \* /* ... */
        LET j == Find2(t, i + 2, 42, 47)
            e == IF j = 0 THEN n + 1 ELSE j + 2
            bad == BadIn(d, t, i, e)
        IN IF bad # 0 THEN R("bad", i, bad, "char", FALSE)
           ELSE IF j = 0 THEN R("bad", i, e, "unterminated-comment", FALSE)
           ELSE R("C", i, e, "", FALSE)
   ELSE IF c = 35 /\ HashComments(d) THEN                                     \* # ... LF
        LET j == Find(t, i, 10)
            e == IF j = 0 THEN n + 1 ELSE j + 1
            bad == BadIn(d, t, i, e)
            setoff == i = 1 \/ t[i - 1] \in WS
        IN IF bad # 0 THEN R("bad", i, bad, "char", FALSE)
           ELSE R("C", i, e, "", (j = 0) \/ ~setoff)
   ELSE IF c \in {34, 39} THEN                                                \* quoted string
        LET j == Find(t, i + 1, c)
            e == IF j = 0 THEN n + 1 ELSE j + 1
            bad == BadIn(d, t, i, e)
        IN IF bad # 0 THEN R("bad", i, bad, "char", FALSE)
           ELSE IF j = 0 THEN R("bad", i, e, "unterminated-quote", FALSE)
           ELSE R("Q", i, e, "", FALSE)
   ELSE IF c = 60 THEN                                                        \* < units >
        LET j == Find(t, i + 1, 62)
            e == IF j = 0 THEN n + 1 ELSE j + 1
            bad == BadIn(d, t, i, e)
        IN IF bad # 0 THEN R("bad", i, bad, "char", FALSE)
           ELSE IF j = 0 THEN R("bad", i, e, "unterminated-units", FALSE)
           ELSE IF \E h \in (i + 1)..(j - 1) : t[h] = 60 THEN R("bad", i, e, "units-delimiter-inside", FALSE)
           ELSE R("U", i, e, "", ~IsBoundary(d, t, e))
   ELSE IF c \in Punct THEN R("P", i, i + 1, "", FALSE)
   ELSE LET ne == NumberEndAt(d, t, i) IN
        IF ne # 0 THEN R("W", i, ne, "", FALSE)
        ELSE IF c \in Reserved(d) THEN R("J", i, i + 1, "", FALSE)
        ELSE R("W", i, WordEnd(d, t, i), "", FALSE)

(* units text: strip the delimiters and outer white space *)
RECURSIVE StripL(_)
StripL(s) == IF s # <<>> /\ s[1] \in WS THEN StripL(Tail(s)) ELSE s
RECURSIVE StripR(_)
StripR(s) == IF s # <<>> /\ s[Len(s)] \in WS THEN StripR(SubSeq(s, 1, Len(s) - 1)) ELSE s
Strip(s) == StripR(StripL(s))

LineOf(t, pos0) == 1 + CountBefore(t, pos0, 10)        \* 1-based line of 0-based offset pos0
LFsIn(t, b, e) == Cardinality({h \in b..(e - 1) : t[h] = 10})

(* classify a raw element into a grammar token [k, s, line, v, open] *)
Tok(d, t, raw, line) ==
   LET s == SubSeq(t, raw.b, raw.e - 1)
       T(k, v, open) == [k |-> k, s |-> s, line |-> line, v |-> v, open |-> open \/ raw.open]
   IN CASE raw.rk = "C" -> T("C", NoVal, FALSE)
        [] raw.rk = "P" -> T(CASE s[1] = 61 -> "=" [] s[1] = 44 -> "," [] s[1] = 59 -> ";" [] s[1] = 40 -> "("
                               [] s[1] = 41 -> ")" [] s[1] = 123 -> "{" [] OTHER -> "}", NoVal, FALSE)
        [] raw.rk = "Q" -> T("V", N("str", QuotedValue(d, s), <<>>), FALSE)
        [] raw.rk = "U" -> LET u == Strip(SubSeq(s, 2, Len(s) - 1)) IN T("U", N("units", u, <<>>), u = <<>>)
        [] raw.rk = "J" -> T("J", NoVal, FALSE)
        [] OTHER ->                                     \* word
             LET kw == KeywordKind(d, s)
                 cl == Classify(d, s)
             IN IF \E h \in 1..Len(s) : s[h] \in PyWS \ WS THEN T("J", NoVal, TRUE)
                ELSE IF kw # "" THEN T(kw, NoVal, FALSE)
                ELSE IF cl.c = "unspec" THEN T("J", NoVal, TRUE)
                ELSE IF NameCapable(d, s) THEN T("W", IF IsValueClass(cl.c) THEN cl.v ELSE N("nav", s, <<>>), FALSE)
                ELSE IF IsValueClass(cl.c) THEN T("V", cl.v, FALSE)
                ELSE T("J", NoVal, FALSE)
=============================================================================
