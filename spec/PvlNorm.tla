------------------------------- MODULE PvlNorm -------------------------------
(***************************************************************************)
(* The normalisations a round trip through encoder E and reader P may apply *)
(* to a module (DESIGN.md appendix E), over value trees N(t, s, xs):        *)
(*   PVLModule / PVLGroup / PVLObject (children: item nodes), item(name),   *)
(*   null, bool, int, real, str, date, time, datetime ("...|zone"), qty      *)
(*   (s = units, one child), seq, set.                                      *)
(*                                                                         *)
(*  - ODL / PDS3 encoders upper-case the names of assignments               *)
(*  - ODL-family decoders fold white space inside strings                   *)
(*  - a naive time is read back as UTC where the reader has a default zone  *)
(*  - PDS3: GROUP -> OBJECT where a group is not a valid PDS group, and for *)
(*    one top-level group when the module has groups but no object          *)
(*  - set = frozenset, member order free (compared as sets by the harness)  *)
(* Everything else must come back identical.                                *)
(***************************************************************************)
EXTENDS PvlValues

IsBlock(n) == n.t \in {"PVLGroup", "PVLObject"}
UpperSeq(s) == [i \in 1..Len(s) |-> Upper(s[i])]
ZoneSuffix(s) == LET bar == CHOOSE i \in 1..Len(s) : s[i] = 124 IN SubSeq(s, bar + 1, Len(s))
WithZone(s, z) == LET bar == CHOOSE i \in 1..Len(s) : s[i] = 124 IN SubSeq(s, 1, bar) \o z

(* PDS restrictions on GROUPs (PDSLabelEncoder.is_PDSgroup): no nested blocks, no repeated keys, no data
   location pointer ('^' name with an integer value or an integer quantity) *)
ItemName(it) == it.s
ItemVal(it) == it.xs[1]
IsIntLike(v) == v.t = "int" \/ (v.t = "qty" /\ v.xs[1].t = "int")
ValidPDSGroup(g) ==
   /\ \A i \in 1..Len(g.xs) : ~IsBlock(ItemVal(g.xs[i]))
   /\ \A i, j \in 1..Len(g.xs) : i # j => ItemName(g.xs[i]) # ItemName(g.xs[j])
   /\ \A i \in 1..Len(g.xs) : (ItemName(g.xs[i]) # <<>> /\ ItemName(g.xs[i])[1] = 94) => ~IsIntLike(ItemVal(g.xs[i]))

RECURSIVE Norm(_, _, _)
NormItems(E, P, xs) == [i \in 1..Len(xs) |-> Norm(E, P, xs[i])]
Norm(E, P, n) ==
   CASE n.t = "item" ->
          N("item", IF E \in {"ODL", "PDS3"} /\ ~IsBlock(n.xs[1]) THEN UpperSeq(n.s) ELSE n.s, NormItems(E, P, n.xs))
     [] n.t = "str" -> N("str", IF FoldsStrings(P) THEN FoldText(n.s) ELSE n.s, <<>>)
     [] n.t \in {"time", "datetime"} ->
          IF ZoneSuffix(n.s) = S("naive") /\ DefaultUTC(P) THEN N(n.t, WithZone(n.s, S("utc")), <<>>) ELSE n
     [] n.t = "PVLGroup" ->
          N(IF E = "PDS3" /\ ~ValidPDSGroup(n) THEN "PVLObject" ELSE "PVLGroup", n.s, NormItems(E, P, n.xs))
     [] OTHER -> N(n.t, n.s, NormItems(E, P, n.xs))

(* the module level: PDS3 needs an OBJECT when there are GROUPs *)
TopConvert(m) ==
   LET grp == { i \in 1..Len(m.xs) : ItemVal(m.xs[i]).t = "PVLGroup" }
       obj == { i \in 1..Len(m.xs) : ItemVal(m.xs[i]).t = "PVLObject" }
       bad == { i \in grp : ~ValidPDSGroup(ItemVal(m.xs[i])) }
       pick(X) == CHOOSE i \in X : \A j \in X : i <= j
       k == IF bad # {} THEN pick(bad) ELSE pick(grp)
   IN IF grp = {} \/ obj # {} THEN m
      ELSE [m EXCEPT !.xs[k].xs[1].t = "PVLObject"]
NormModule(E, P, m) == Norm(E, P, IF E = "PDS3" THEN TopConvert(m) ELSE m)

(* theorems checked by TLC in MC_Module: Norm is idempotent; it changes nothing a non-folding, zone-less,
   non-PDS3 round trip should keep *)
=============================================================================
