----------------------------- MODULE PvlGrammar -----------------------------
(***************************************************************************)
(* Reference grammar of PVL / ODL labels at token level: a deterministic    *)
(* push-down machine that consumes one token per step and builds the tree   *)
(* the grammar denotes (DESIGN.md appendix C).                              *)
(*                                                                         *)
(*   Module  ::= { Assign | Block } [ End ]                                 *)
(*   Assign  ::= Name '=' Value [';']                                       *)
(*   Block   ::= Begin '=' Name [';'] { Assign | Block } EndKw ['=' Name] [';'] *)
(*   Value   ::= ( Simple | Set | Seq ) [ Units ]                           *)
(*   Set     ::= '{' [ Value { ',' Value } ] '}'                            *)
(*   Seq     ::= '(' [ Value { ',' Value } ] ')'                            *)
(*                                                                         *)
(* A token is a record [k, s, line, v]:                                     *)
(*   k    kind: "W" word that can be a parameter name (and, if v.t # "nav", *)
(*        also a value), "V" simple value that cannot be a name, "=" "," ";"*)
(*        "(" ")" "{" "}", "U" units expression, "BG" "BO" begin keywords,  *)
(*        "EG" "EO" end keywords, "END", "C" comment, "J" anything else     *)
(*   s    the token text (names are compared by text)                       *)
(*   line 1-based line of the token in the text                             *)
(*   v    denoted value node for W and V tokens, units text node for U      *)
(* Nodes are uniformly tagged records N(t, s, xs).                          *)
(*                                                                         *)
(* cfg = [tolerant, numunits, scalarsets]                                   *)
(*   tolerant   missing values after '=' are repaired (OMNI, ISIS)          *)
(*   numunits   units may only follow numbers (ODL, PDS3)                   *)
(*   scalarsets sets contain only simple values (ODL, PDS3)                 *)
(***************************************************************************)
EXTENDS PvlText

Item(name, v) == N("item", name, <<v>>)
Empty(line) == N("empty", Dec(line), << N("str", <<>>, <<>>) >>)   \* placeholder: an empty string carrying the line

Frame(f, kw, name) == [f |-> f, kw |-> kw, name |-> name, items |-> <<>>]
NoName == <<>>
(* f: "mod" | "blk" | "seq" | "set" ; kw: "BG"/"BO" for blocks *)

GInit == [stk |-> << Frame("mod", "", NoName) >>,
          phase |-> "stmt",      \* see GStep
          name |-> NoName,       \* pending parameter name
          val |-> NoVal,         \* pending value of the assignment being read
          eqline |-> 0,          \* line of the '=' of the assignment being read
          bare |-> NoName,       \* text of the pending value when it is a bare name-capable word (tolerant deferral)
          verdict |-> "live",    \* live | accept | reject
          locus |-> "",          \* where the reference rejected
          errs |-> <<>>,         \* lines of repaired missing values, in order of repair
          prev |-> "start",      \* kind of the previous significant token (V tokens: "V:" + value tag)
          after |-> 0]           \* tokens fed after the END statement (must stay 0)

Top(st) == st.stk[Len(st.stk)]
PushItem(s, it) == [s EXCEPT ![Len(s)].items = Append(@, it)]
Pop(s) == SubSeq(s, 1, Len(s) - 1)
InColl(st) == Top(st).f \in {"seq", "set"}

Reject(st, where) == [st EXCEPT !.verdict = "reject", !.locus = where \o "@" \o st.prev]

IsNumber(v) == v.t \in {"int", "real", "num"}
IsValueTok(t) == (t.k = "V") \/ (t.k = "W" /\ t.v.t # "nav")

(* the assignment under construction is complete: append it to the enclosing block *)
Commit(st) == [st EXCEPT !.stk = PushItem(st.stk, Item(st.name, st.val)),
                         !.name = NoName, !.val = NoVal, !.bare = NoName]
(* the value of the pending assignment is missing (tolerant only) *)
CommitEmpty(st) == [st EXCEPT !.stk = PushItem(st.stk, Item(st.name, Empty(st.eqline))),
                              !.errs = Append(st.errs, st.eqline),
                              !.name = NoName, !.val = NoVal, !.bare = NoName]
CloseBlock(st) ==
   LET b == Top(st)
   IN [st EXCEPT !.stk = PushItem(Pop(st.stk),
                   Item(b.name, N(IF b.kw = "BG" THEN "PVLGroup" ELSE "PVLObject", <<>>, b.items)))]

(* a token that may start a statement, seen at a statement boundary *)
StmtStart(st, t) ==
   CASE t.k = "W" -> [st EXCEPT !.phase = "n", !.name = t.s]
     [] t.k \in {"BG", "BO"} -> [st EXCEPT !.stk = Append(st.stk, Frame("blk", t.k, NoName)), !.phase = "b"]
     [] t.k \in {"EG", "EO"} ->
          IF Top(st).f = "blk" /\ ((Top(st).kw = "BG") <=> (t.k = "EG"))
          THEN [st EXCEPT !.phase = "e"]
          ELSE Reject(st, "stmt/" \o t.k)
     [] t.k = "END" -> IF Len(st.stk) = 1 THEN [st EXCEPT !.phase = "done", !.verdict = "accept"]
                       ELSE Reject(st, "end-in-block")
     [] OTHER -> Reject(st, "stmt/" \o t.k)

(* a complete value v has been read inside a collection or as the value of the assignment *)
GotValue(st, v, baretext) ==
   IF InColl(st) THEN [st EXCEPT !.stk = PushItem(st.stk, v), !.phase = "av"]
   ELSE [st EXCEPT !.val = v, !.phase = "av", !.bare = baretext]

CloseColl(st) ==
   LET f == Top(st)
       v == N(f.f, <<>>, f.items)
       s2 == [st EXCEPT !.stk = Pop(st.stk)]
   IN GotValue(s2, v, NoName)

Closes(st, t) == (t.k = ")" /\ Top(st).f = "seq") \/ (t.k = "}" /\ Top(st).f = "set")

(* attach units u to the value just read *)
WithUnits(cfg, st, t) ==
   LET its == Top(st).items
       lastv == IF InColl(st) THEN its[Len(its)] ELSE st.val
   IN IF cfg.numunits /\ ~IsNumber(lastv) THEN Reject(st, "units-after-nonnumber")
      ELSE IF InColl(st)
           THEN [st EXCEPT !.stk = [st.stk EXCEPT ![Len(st.stk)].items =
                                       [its EXCEPT ![Len(its)] = N("qty", t.v.s, <<lastv>>)]],
                           !.phase = "avu"]
           ELSE [st EXCEPT !.val = N("qty", t.v.s, <<st.val>>), !.phase = "avu", !.bare = NoName]

(* tolerant: is the value after '=' missing when t comes next? *)
MissingBefore(t) == t.k \in {"END", "EG", "EO", "BG", "BO", ";"}

GStep0(cfg, st, t) ==
  IF st.verdict = "accept" THEN [st EXCEPT !.after = @ + 1]
  ELSE IF st.verdict = "reject" \/ t.k = "C" THEN st
  ELSE CASE st.phase = "stmt" -> StmtStart(st, t)
    [] st.phase = "n" ->                              \* after a parameter name
         IF t.k = "=" THEN [st EXCEPT !.phase = "v", !.eqline = t.line] ELSE Reject(st, "afterName/" \o t.k)
    [] st.phase \in {"v", "v0", "vc"} ->              \* a value is expected (v0: right after an opening bracket, vc: after a comma)
         IF IsValueTok(t) THEN
              GotValue(st, t.v, IF t.k = "W" /\ ~InColl(st) THEN t.s ELSE NoName)
         ELSE IF t.k \in {"(", "{"} THEN
              IF cfg.scalarsets /\ Top(st).f = "set" THEN Reject(st, "collection-in-odl-set")
              ELSE [st EXCEPT !.stk = Append(st.stk, Frame(IF t.k = "(" THEN "seq" ELSE "set", t.k, NoName)), !.phase = "v0"]
         ELSE IF st.phase = "v0" /\ Closes(st, t) THEN CloseColl(st)
         ELSE IF cfg.tolerant /\ st.phase = "v" /\ ~InColl(st) /\ MissingBefore(t) THEN
              IF t.k = ";" THEN [CommitEmpty(st) EXCEPT !.phase = "stmt"]
              ELSE StmtStart(CommitEmpty(st), t)
         ELSE Reject(st, (IF InColl(st) THEN "inColl/" ELSE "afterEq/") \o t.k)
    [] st.phase \in {"av", "avu"} ->                  \* after a value (avu: it already has units)
         IF t.k = "U" /\ st.phase = "av" THEN WithUnits(cfg, st, t)
         ELSE IF InColl(st) THEN
              IF t.k = "," THEN [st EXCEPT !.phase = "vc"]
              ELSE IF Closes(st, t) THEN CloseColl(st)
              ELSE Reject(st, "inColl-afterValue/" \o t.k)
         ELSE IF t.k = ";" THEN [Commit(st) EXCEPT !.phase = "stmt"]
         ELSE IF cfg.tolerant /\ t.k = "=" /\ st.bare # NoName THEN
              \* `a = b = ...`: the value of a is missing, b is the next parameter name
              [CommitEmpty(st) EXCEPT !.name = st.bare, !.phase = "v", !.eqline = t.line]
         ELSE StmtStart(Commit(st), t)
    [] st.phase = "b" ->                              \* after a begin keyword
         IF t.k = "=" THEN [st EXCEPT !.phase = "b="] ELSE Reject(st, "afterBegin/" \o t.k)
    [] st.phase = "b=" ->
         IF t.k = "W" THEN [st EXCEPT !.stk = [st.stk EXCEPT ![Len(st.stk)].name = t.s], !.phase = "bn"]
         ELSE Reject(st, "afterBeginEq/" \o t.k)
    [] st.phase = "bn" ->                             \* after the block name
         IF t.k = ";" THEN [st EXCEPT !.phase = "stmt"] ELSE StmtStart(st, t)
    [] st.phase = "e" ->                              \* after the matching end keyword
         IF t.k = "=" THEN [st EXCEPT !.phase = "e="]
         ELSE IF t.k = ";" THEN [CloseBlock(st) EXCEPT !.phase = "stmt"]
         ELSE StmtStart(CloseBlock(st), t)
    [] st.phase = "e=" ->
         IF t.k \in {"W", "V"} /\ t.s = Top(st).name THEN [st EXCEPT !.phase = "en"]
         ELSE Reject(st, "afterEndKwEq/" \o t.k)
    [] st.phase = "en" ->
         IF t.k = ";" THEN [CloseBlock(st) EXCEPT !.phase = "stmt"]
         ELSE StmtStart(CloseBlock(st), t)
    [] OTHER -> Reject(st, "internal")

GStep(cfg, st, t) ==
  LET r == GStep0(cfg, st, t)
  IN IF t.k = "C" \/ st.verdict # "live" THEN r
     ELSE [r EXCEPT !.prev = IF t.k = "V" THEN "V:" \o t.v.t ELSE t.k]

(* end of text *)
GEof(cfg, st0) ==
  LET st == IF st0.verdict = "live" /\ st0.phase \in {"e", "en"}      \* an end statement is complete at end of text
            THEN [CloseBlock(st0) EXCEPT !.phase = "stmt"] ELSE st0 IN
  IF st.verdict # "live" THEN st
  ELSE IF Len(st.stk) = 1 /\ st.phase \in {"av", "avu"} THEN [Commit(st) EXCEPT !.verdict = "accept", !.phase = "done"]
  ELSE IF Len(st.stk) = 1 /\ st.phase = "stmt" THEN [st EXCEPT !.verdict = "accept", !.phase = "done"]
  ELSE IF cfg.tolerant /\ Len(st.stk) = 1 /\ st.phase = "v" THEN
       [CommitEmpty(st) EXCEPT !.verdict = "accept", !.phase = "done"]
  ELSE Reject(st, "eof-in-" \o (IF Len(st.stk) > 1 THEN Top(st).f ELSE st.phase))

RECURSIVE GRun(_, _, _, _)
GRun(cfg, st, toks, i) == IF i > Len(toks) \/ st.verdict = "accept" THEN st
                          ELSE GRun(cfg, GStep(cfg, st, toks[i]), toks, i + 1)
Parse(cfg, toks) == GEof(cfg, GRun(cfg, GInit, toks, 1))

SortedErrs(st) == LET e == st.errs IN
   \* errs are produced in textual order of the '=' signs, hence already ascending
   e
Result(st) == N("PVLModule", <<>>, st.stk[1].items)
Outcome(st) == [verdict |-> st.verdict, locus |-> st.locus,
                tree |-> IF st.verdict = "accept" THEN Result(st) ELSE NoVal,
                errs |-> IF st.verdict = "accept" THEN st.errs ELSE <<>>]

StrictCfg  == [tolerant |-> FALSE, numunits |-> FALSE, scalarsets |-> FALSE]   \* PVL
OdlCfg     == [tolerant |-> FALSE, numunits |-> TRUE,  scalarsets |-> TRUE]    \* ODL, PDS3
OmniCfg    == [tolerant |-> TRUE,  numunits |-> FALSE, scalarsets |-> FALSE]   \* OMNI, ISIS
=============================================================================
