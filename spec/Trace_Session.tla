---------------------------- MODULE Trace_Session ----------------------------
(* Judges recorded sessions.  Event: [input, reused, fresh] where reused is    *)
(* the outcome digest on the long-lived instance and fresh the digest of the   *)
(* same input on a brand-new instance.  State: table of fresh outcomes seen.   *)
EXTENDS Naturals, Sequences, TLC, Json, IOUtils
Traces == JsonDeserialize(IOEnv.TRACE_FILE)
VARIABLES tid, l, table, fails
vars == <<tid, l, table, fails>>
Ev == Traces[tid].ev[l]
TInit == tid \in 1..Len(Traces) /\ l = 1 /\ fails = <<>> /\ table = <<>>   \* table: seq of <<input, outcome>>
Known(i) == \E j \in 1..Len(table) : table[j][1] = i
Lookup(i) == (CHOOSE j \in 1..Len(table) : table[j][1] = i)
Step == /\ l <= Len(Traces[tid].ev)
        /\ l' = l + 1 /\ tid' = tid
        /\ LET c1 == IF Ev.reused = Ev.fresh THEN <<>> ELSE << [l |-> l, clause |-> "depends-on-history"] >>
               c2 == IF Known(Ev.input) /\ table[Lookup(Ev.input)][2] # Ev.fresh
                     THEN << [l |-> l, clause |-> "fresh-not-deterministic"] >> ELSE <<>>
           IN fails' = fails \o c1 \o c2
        /\ table' = IF Known(Ev.input) THEN table ELSE Append(table, <<Ev.input, Ev.fresh>>)
TSpec == TInit /\ [][Step]_vars
Finished == l = Len(Traces[tid].ev) + 1
Verdict == Finished => PrintT(ToJson([tid |-> tid, n |-> l - 1, fails |-> fails]))
=============================================================================
