SPECIFICATION Spec
CONSTANT MaxObjs = 3
CONSTANT MaxItems = 2
CONSTANT MaxMut = 1
CONSTANT RootClasses = {"PVLModule", "PVLGroup", "PVLObject", "OrderedMultiDict"}
CONSTANT MechSet = {"copy_method", "copy_copy", "deepcopy", "pickle0", "pickle1", "pickle2", "pickle3", "pickle4", "pickle5"}
CONSTANT Emit = FALSE
CONSTANT AtomVals = {"x"}
CONSTANT ChildClasses = {"PVLGroup", "PVLObject"}
CONSTANT MutNames = {"append", "setitem", "delitem", "pop", "insert", "clear"}
INVARIANT CopyEqual
INVARIANT OrigIntact
INVARIANT ClassesKept
INVARIANT EmitCase
PROPERTY Independent
CHECK_DEADLOCK FALSE
