SPECIFICATION Spec
CONSTANT D = 0
CONSTANT Mode = "obs"
CONSTANT OpSubset = "full"
CONSTANT MaxLen = 5
CONSTRAINT Bound
INVARIANT ObsCoherent
PROPERTY SetItemEffect
PROPERTY PopEffect
CHECK_DEADLOCK FALSE
