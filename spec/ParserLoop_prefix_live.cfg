SPECIFICATION Spec
CONSTANT MaxLen = 4
CONSTANT Version = "prefix"
PROPERTY Termination
CHECK_DEADLOCK FALSE
