----------------------------- MODULE MC_Grammar -----------------------------
(* Bounded exhaustive exploration of the reference grammar over an abstract   *)
(* token alphabet: every token sequence of length <= MaxLen whose proper      *)
(* prefixes are all live (rejection and END are absorbing, so dead sequences  *)
(* are explored one token deep only).  Each state is printed as a case: the   *)
(* token kinds fed so far and the outcome the reference assigns if the text   *)
(* ended here (truncation at every token).  Token i stands on line i.         *)
EXTENDS PvlGrammar, Json
CONSTANTS MaxLen, Dialect, Emit

Cfg == CASE Dialect = "strict" -> StrictCfg [] Dialect = "odl" -> OdlCfg [] Dialect = "tolerant" -> OmniCfg

Str(x) == N("str", S(x), <<>>)
Tok(name, line) ==
  CASE name = "Wa" -> [k |-> "W", s |-> S("a"), line |-> line, v |-> Str("a")]
    [] name = "Wb" -> [k |-> "W", s |-> S("b"), line |-> line, v |-> Str("b")]
    [] name = "Vn" -> [k |-> "V", s |-> S("1"), line |-> line, v |-> N("int", S("10:1"), <<>>)]
    [] name = "Vs" -> [k |-> "V", s |-> S("'s'"), line |-> line, v |-> Str("s")]
    [] name = "U"  -> [k |-> "U", s |-> S("<m>"), line |-> line, v |-> N("units", S("m"), <<>>)]
    [] OTHER       -> [k |-> name, s |-> S(name), line |-> line, v |-> NoVal]
Names == {"Wa", "Wb", "Vn", "Vs", "U", "=", ",", ";", "(", ")", "{", "}", "BG", "BO", "EG", "EO", "END", "J", "C"}

VARIABLES toks, st
vars == <<toks, st>>
Init == toks = <<>> /\ st = GInit
Feed(n) == /\ Len(toks) < MaxLen /\ st.verdict = "live"
           /\ toks' = Append(toks, n)
           /\ st' = GStep(Cfg, st, Tok(n, Len(toks) + 1))
Next == \E n \in Names : Feed(n)
Spec == Init /\ [][Next]_vars

AtEof == GEof(Cfg, st)
Case == [toks |-> toks, o |-> Outcome(AtEof)]
EmitCase == Emit => PrintT(ToJson(Case))

(* sanity theorems of the reference *)
RejectHasLocus == st.verdict = "reject" => st.locus # ""
AcceptMeansClosed == st.verdict = "accept" => Len(st.stk) = 1
ErrsOnlyIfTolerant == (~Cfg.tolerant) => st.errs = <<>>
NothingAfterEnd == st.after = 0
EofTotal == AtEof.verdict \in {"accept", "reject"}
ErrsAscending == \A i \in 1..(Len(AtEof.errs) - 1) : AtEof.errs[i] <= AtEof.errs[i + 1]
=============================================================================
