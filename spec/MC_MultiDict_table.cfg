SPECIFICATION Spec
CONSTANT D = 0
CONSTANT Mode = "table"
CONSTANT OpSubset = "full"
CONSTANT MaxLen = 6
INVARIANT EmitObs
INVARIANT ObsCoherent
CHECK_DEADLOCK FALSE
