------------------------------- MODULE PvlText -------------------------------
(* Text is a sequence of Unicode code points (naturals).  This module has the *)
(* bridge from readable TLA+ string constants to code points and small text   *)
(* helpers.  S("END") = <<69, 78, 68>>.                                       *)
EXTENDS Naturals, Sequences, TLC

Ord == " " :> 32 @@ "!" :> 33 @@ "\"" :> 34 @@ "#" :> 35 @@ "$" :> 36 @@ "%" :> 37 @@
       "&" :> 38 @@ "'" :> 39 @@ "(" :> 40 @@ ")" :> 41 @@ "*" :> 42 @@ "+" :> 43 @@
       "," :> 44 @@ "-" :> 45 @@ "." :> 46 @@ "/" :> 47 @@ "0" :> 48 @@ "1" :> 49 @@
       "2" :> 50 @@ "3" :> 51 @@ "4" :> 52 @@ "5" :> 53 @@ "6" :> 54 @@ "7" :> 55 @@
       "8" :> 56 @@ "9" :> 57 @@ ":" :> 58 @@ ";" :> 59 @@ "<" :> 60 @@ "=" :> 61 @@
       ">" :> 62 @@ "?" :> 63 @@ "@" :> 64 @@ "A" :> 65 @@ "B" :> 66 @@ "C" :> 67 @@
       "D" :> 68 @@ "E" :> 69 @@ "F" :> 70 @@ "G" :> 71 @@ "H" :> 72 @@ "I" :> 73 @@
       "J" :> 74 @@ "K" :> 75 @@ "L" :> 76 @@ "M" :> 77 @@ "N" :> 78 @@ "O" :> 79 @@
       "P" :> 80 @@ "Q" :> 81 @@ "R" :> 82 @@ "S" :> 83 @@ "T" :> 84 @@ "U" :> 85 @@
       "V" :> 86 @@ "W" :> 87 @@ "X" :> 88 @@ "Y" :> 89 @@ "Z" :> 90 @@ "[" :> 91 @@
       "\\" :> 92 @@ "]" :> 93 @@ "^" :> 94 @@ "_" :> 95 @@ "`" :> 96 @@ "a" :> 97 @@
       "b" :> 98 @@ "c" :> 99 @@ "d" :> 100 @@ "e" :> 101 @@ "f" :> 102 @@ "g" :> 103 @@
       "h" :> 104 @@ "i" :> 105 @@ "j" :> 106 @@ "k" :> 107 @@ "l" :> 108 @@ "m" :> 109 @@
       "n" :> 110 @@ "o" :> 111 @@ "p" :> 112 @@ "q" :> 113 @@ "r" :> 114 @@ "s" :> 115 @@
       "t" :> 116 @@ "u" :> 117 @@ "v" :> 118 @@ "w" :> 119 @@ "x" :> 120 @@ "y" :> 121 @@
       "z" :> 122 @@ "{" :> 123 @@ "|" :> 124 @@ "}" :> 125 @@ "~" :> 126
S(str) == [i \in 1..Len(str) |-> Ord[SubSeq(str, i, i)]]

RECURSIVE Dec(_)
Dec(n) == IF n < 10 THEN <<48 + n>> ELSE Dec(n \div 10) \o <<48 + (n % 10)>>

(* uniformly tagged tree nodes: type tag (a TLA+ string), text payload (code points), children *)
N(t, s, xs) == [t |-> t, s |-> s, xs |-> xs]
NoVal == N("none", <<>>, <<>>)

IsDigit(c)  == c \in 48..57
IsUpper(c)  == c \in 65..90
IsLower(c)  == c \in 97..122
IsAlpha(c)  == IsUpper(c) \/ IsLower(c)
IsHex(c)    == IsDigit(c) \/ c \in 65..70 \/ c \in 97..102
Fold(c)     == IF IsUpper(c) THEN c + 32 ELSE c            \* ASCII case folding
FoldSeq(s)  == [i \in 1..Len(s) |-> Fold(s[i])]
Upper(c)    == IF IsLower(c) THEN c - 32 ELSE c
EqFold(s, str) == FoldSeq(s) = FoldSeq(S(str))              \* s equals the ASCII word str ignoring case

Sub(t, i, j) == SubSeq(t, i, j)                             \* t[i..j], 1-based inclusive
StartsAt(t, i, p) == i + Len(p) - 1 <= Len(t) /\ SubSeq(t, i, i + Len(p) - 1) = p

RECURSIVE DigitsEnd(_, _)      \* first index >= i that does not hold a decimal digit
DigitsEnd(t, i) == IF i <= Len(t) /\ IsDigit(t[i]) THEN DigitsEnd(t, i + 1) ELSE i
RECURSIVE HexEnd(_, _)
HexEnd(t, i) == IF i <= Len(t) /\ IsHex(t[i]) THEN HexEnd(t, i + 1) ELSE i
RECURSIVE Find(_, _, _)        \* first index >= i holding code point c, 0 if none
Find(t, i, c) == IF i > Len(t) THEN 0 ELSE IF t[i] = c THEN i ELSE Find(t, i + 1, c)
RECURSIVE Find2(_, _, _, _)    \* first index >= i where c1 c2 stand, 0 if none
Find2(t, i, c1, c2) == IF i + 1 > Len(t) THEN 0
                       ELSE IF t[i] = c1 /\ t[i + 1] = c2 THEN i ELSE Find2(t, i + 1, c1, c2)
RECURSIVE CountBefore(_, _, _) \* number of occurrences of c in t[1..n]
CountBefore(t, n, c) == IF n <= 0 THEN 0 ELSE (IF t[n] = c THEN 1 ELSE 0) + CountBefore(t, n - 1, c)
(* value of a short digit string (fits TLC integers: at most 9 digits) *)
RECURSIVE NumVal(_)
NumVal(s) == IF s = <<>> THEN 0 ELSE 10 * NumVal(SubSeq(s, 1, Len(s) - 1)) + (s[Len(s)] - 48)
=============================================================================
