SPECIFICATION Spec
CONSTANT Emit = TRUE
INVARIANT NormIdempotent
INVARIANT PvlKeepsEverything
INVARIANT EmitCase
CHECK_DEADLOCK FALSE
INVARIANT NonIdempotentOnlyThere
