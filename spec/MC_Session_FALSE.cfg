SPECIFICATION Spec
CONSTANT NInputs = 4
CONSTANT D = 3
CONSTANT Reset = FALSE
CONSTANT Emit = FALSE
INVARIANT NoLeak
CHECK_DEADLOCK FALSE
