------------------------------- MODULE Trace_Time -------------------------------
(* Judges what the encoders write for temporal values (C14, encode direction).    *)
(* Event: [d, f (fields of the Python value: kind y m dd H M S us zone), refused,  *)
(* text].  The text must denote, in the encoder's own dialect, a value of the same *)
(* type, the same instant and the same precision - or the encoder refuses.         *)
EXTENDS PvlValues, Json, IOUtils
Events == JsonDeserialize(IOEnv.TRACE_FILE)
VARIABLES i
Init == i \in 1..Len(Events)
Next == FALSE /\ i' = i
Spec == Init /\ [][Next]_i
E == Events[i]
Fails(e) ==
  IF e.refused THEN <<>>
  ELSE LET cl == Classify(e.d, e.text).c IN
       IF cl = "unspec" THEN << "text-outside-the-canonical-forms" >>    \* an encoder must write a form the grammars fix the meaning of
       ELSE IF cl \notin {"date", "time", "datetime"} THEN << "text-is-not-temporal:" \o cl >>
       ELSE IF cl # e.f.kind THEN << "type-changed" >>
       ELSE IF ~SameInstant(TemporalFields(e.d, e.text), e.f, DefaultUTC(e.d)) THEN << "instant-or-precision-changed" >>
       ELSE <<>>
Verdict == PrintT(ToJson([i |-> i, fails |-> Fails(E), cls |-> Classify(E.d, E.text).c]))
=============================================================================
