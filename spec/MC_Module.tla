------------------------------- MODULE MC_Module -------------------------------
(* Generator of modules for the dump side (C01, C02, C12, C13 ...): a value      *)
(* lexicon that sits on every class border of the dialects (strings that look     *)
(* like keywords, numbers, dates; white space, quotes, reserved characters; ints,  *)
(* floats, temporal values of every precision and zone; quantities, sequences,     *)
(* sets), placed at top level, inside a block, in a sequence and as a quantity     *)
(* magnitude, plus modules with duplicate keys and group/object mixes.  Checks     *)
(* on the model that Norm is idempotent and leaves unaffected values alone.        *)
EXTENDS PvlNorm, Json
CONSTANTS Emit

Str(x) == N("str", x, <<>>)
IntV(x) == N("int", S(x), <<>>)
RealV(x) == N("real", S(x), <<>>)
T(t, x) == N(t, S(x), <<>>)
LF == <<10>>
Strings == { Str(S(x)) : x \in { "NULL", "null", "True", "FALSE", "END", "end", "End_Group", "GROUP", "object", "BEGIN_OBJECT",
                                 "1", "-1", "+1", "1e5", "inf", "nan", "1_0", "2#101#", "16#FF#", "2001-01-01", "2001-366", "12:00", "12:00:60",
                                 "12:00+01", "12:00-01", "2001-01-01T12:00-05:30", "a", "a_b", "a-b", "N/A", "a:b", "^P", "x+y", "a b", " a", "a ", "a  b", "it's", "say \"x\"",
                                 "a=b", "a,b", "(a)", "{a}", "<m>", "a;b", "a&b", "/* c */", "a/*b", "*/", "# c", "a#b", "x-", "-" } }
           \cup { Str(<<>>), Str(S("a") \o <<9>> \o S("b")), Str(S("a") \o LF \o S("b")), Str(S("a") \o <<13, 10>> \o S("b")),
                  Str(S("a-") \o LF \o S("b")), Str(S("x") \o <<11>> \o S("y")), Str(S("both ' and \"")), Str(<<1>>), Str(S("a") \o <<0>> \o S("b")), Str(<<160>>), Str(S("x") \o <<160>>), Str(S("x") \o <<159>>), Str(<<127>>), Str(<<255>>), Str(<<256>>), Str(<<233>>), Str(<<176, 67>>), Str(<<8364>>),
                  Str(S("about 5") \o <<160>> \o S("km wide")), Str(S("alpha") \o <<31>> \o S("beta gamma")), Str(S("x") \o <<28>> \o S(" y")),
                  Str(S("5 - ") \o LF \o S("10")), Str(S("5 -") \o <<9>> \o LF \o S("  10")), Str(S("tab") \o <<9, 9>> \o S("tab")),
                  Str(S("word word word word word word word word word word word word word word word word word word word word")),
                  Str(S("aaa- bbb- ccc- ddd- eee- fff- ggg- hhh- iii- jjj- kkk- lll- mmm- nnn- ooo- ppp- qqq- rrr- sss- ttt- uuu- vvv- www- xxx")),
                  Str(S("a - b - c - d - e - f - g - h - i - j - k - l - m - n - o - p - q - r - s - t - u - v - w - x - y - z - a - b - c - d - e")),
                  Str(S("cross-track along-track cross-track along-track cross-track along-track cross-track along-track cross-track")),
                  Str(S("two  spaces  between  words  in  a  long  string  that  must  be  wrapped  somewhere  around  here  or  there")),
                  Str(S("Aaaaaaaaaaaaaaaaaaaaaaaaaaaaaaaaaaaaaaaaaaaaaaaaaaaaaaaaaaaaaaaaaaaaaaaaaaaaaaaaaaaaaaaaaaaaaaaaaaaaaaaaaaaaaaa")) }
Atoms == { N("null", <<>>, <<>>), N("bool", S("true"), <<>>), N("bool", S("false"), <<>>),
           IntV("0"), IntV("-5"), IntV("9223372036854775808123"), RealV("-0.0"), RealV("1e+300"), RealV("1e-07"), RealV("0.1"), RealV("1.2345678901234567"), RealV("1500.0"), RealV("inf"), RealV("-inf"), RealV("-1e+16"), RealV("-2.5e+20"), RealV("1e+16"), RealV("1e-300"), IntV("-9223372036854775808"),
           T("date", "2001-01-01"), T("date", "0001-01-01"), T("date", "0999-12-31"), T("date", "9999-12-31"),
           T("time", "12:00:00.000000|naive"), T("time", "12:00:00.000000|utc"), T("time", "23:59:59.999999|utc"), T("time", "01:02:03.005000|utc"),
           T("time", "01:02:03.000005|utc"), T("time", "12:30:00.250000|utc"), T("time", "12:30:00.250000|naive"), T("time", "12:34:10.000000|utc"),
           T("time", "00:00:50.000000|utc"), T("datetime", "2001-01-01T04:05:00.125000|utc"), T("datetime", "2001-01-01T04:05:20.000000|utc"), T("time", "12:00:00.000000|off+60"), T("time", "12:00:00.500000|off-330"), T("time", "12:00:00.000000|off+780"), T("time", "12:00:00.000000|off-210"),
           T("datetime", "2001-01-01T12:00:00.000000|naive"), T("datetime", "2001-01-01T00:00:00.000000|utc"), T("datetime", "0999-12-31T23:59:59.123000|utc"),
           T("datetime", "2001-01-01T12:00:00.000000|off+330"), T("datetime", "2001-01-01T12:00:00.000000|off-60") }
Qty(v, u) == N("qty", S(u), <<v>>)
SeqV(xs) == N("seq", <<>>, xs)
SetV(xs) == N("set", <<>>, xs)
Wa == Str(S("a"))   Ws == Str(S("b c"))
Long == [i \in 1..14 |-> Str(S("ab cd"))]
Structured == { Qty(IntV("5"), "m"), Qty(RealV("1.5"), "m/s"), Qty(IntV("5"), "m**2"), Qty(Wa, "m"), Qty(IntV("5"), "a>b"), Qty(IntV("1"), "deg C"),
                SeqV(<<>>), SeqV(<<IntV("1")>>), SeqV(<<IntV("1"), RealV("2.5"), Wa>>), SeqV(<<SeqV(<<IntV("1"), IntV("2")>>), SeqV(<<IntV("3")>>)>>),
                SeqV(<<SeqV(<<SeqV(<<IntV("1")>>)>>)>>), SeqV(<<Ws, Wa>>), SeqV(Long), SeqV(<<Qty(IntV("1"), "m"), IntV("2")>>), SeqV(<<Str(<<>>), Wa>>),
                SetV(<<>>), SetV(<<IntV("1"), IntV("2")>>), SetV(<<Wa, Ws>>), SetV(<<RealV("1.5"), Wa>>), SetV(<<SetV(<<IntV("1")>>), IntV("2")>>),
                Qty(SeqV(<<IntV("1"), IntV("2")>>), "m"), SeqV(<<T("date", "2001-01-01"), N("null", <<>>, <<>>)>>) }
Values == Strings \cup Atoms \cup Structured
Item(k, v) == N("item", S(k), <<v>>)
Mod(xs) == N("PVLModule", <<>>, xs)
Grp(xs) == N("PVLGroup", <<>>, xs)
Obj(xs) == N("PVLObject", <<>>, xs)
One == IntV("1")
Shapes(v) == { Mod(<<Item("a", v)>>), Mod(<<Item("key_b", One), Item("a", v), Item("z", One)>>),
               Mod(<<Item("obj", Obj(<<Item("a", v), Item("longer_key", One)>>))>>),
               Mod(<<Item("g", Grp(<<Item("a", v)>>)), Item("o", Obj(<<Item("x", One)>>))>>) }
ItemCP(k, v) == N("item", k, <<v>>)
Special == { Mod(<<Item("a", One), Item("a", IntV("2")), Item("A", IntV("3"))>>),
             Mod(<<ItemCP(S("lines") \o <<10>>, One), Item("b", One)>>), Mod(<<ItemCP(S("two words"), One)>>),      \* names that are not names
             Mod(<<Item("end", One), Item("b", One)>>), Mod(<<Item("a", One), Item("Object", IntV("2"))>>), Mod(<<Item("null", One)>>),   \* reserved words as names
             Mod(<<Item("end_group", Grp(<<Item("x", One)>>))>>), Mod(<<Item("Begin_Group", One)>>), Mod(<<Item("BEGIN_OBJECT", Grp(<<Item("x", One)>>))>>),
             Mod(<<Item("v", One), Item("g", Grp(<<Item("x", One)>>)), Item("g", IntV("2"))>>),      \* a group that shares its name with a later plain item, behind a plain item
             Mod(<<Item("v", One), Item("w", One), Item("g", Grp(<<Item("x", One), Item("x", One)>>)), Item("w", IntV("2"))>>),
             Mod(<<Item("g", Grp(<<Item("x", One)>>)), Item("g", Grp(<<Item("x", IntV("2"))>>)), Item("a", One)>>),
             Mod(<<Item("g", Grp(<<Item("x", One), Item("x", IntV("2"))>>))>>),
             Mod(<<Item("g", Grp(<<Item("h", Grp(<<Item("x", One)>>))>>))>>),
             Mod(<<Item("g", Grp(<<Item("^p", One)>>)), Item("k", One)>>),
             Mod(<<Item("a", One), Item("g", Grp(<<Item("x", One)>>)), Item("a", IntV("2"))>>),
             Mod(<<Item("o", Obj(<<Item("g", Grp(<<Item("y", SetV(<<IntV("1"), IntV("2")>>))>>))>>)), Item("s", SeqV(<<Wa, Ws>>))>>),
             Mod(<<Item("ns:key", One), Item("^ptr", Qty(IntV("5"), "BYTES")), Item("a-b", One), Item("x.y", One), Item("lower", Wa)>>),
             Mod(<<Item("a_key_of_exactly_thirty_chars_", One), Item("a_key_of_thirty_one_characters_", One)>>),
             Mod(<<Item("^pointer_key_of_30_characters_x", One)>>), Mod(<<Item("^pointer_key_of_31_characters_xy", One)>>),
             Mod(<<Item("namespace_x:key_of_31_characters", One)>>), Mod(<<Item("a23456789012345678901234567890", Wa)>>),
             Mod(<<Item("o", Obj(<<Item("p", Obj(<<Item("q", Obj(<<Item("deep", Ws)>>))>>))>>))>>),
             Mod(<<Item("g-", Grp(<<Item("x", One)>>)), Item("o", Obj(<<Item("y", One)>>))>>),
             Mod(<<Item("k-", One), Item("k2", One)>>),
             Mod(<<Item("s", SeqV([i \in 1..9 |-> Str(S("cross-track along-track"))]))>>),
             Mod(<<Item("g", Grp(<<Item("x", One), Item("X", IntV("2"))>>)), Item("o", Obj(<<Item("y", One)>>))>>),
             Mod(<<Item("g", Grp(<<Item("k", One)>>)), Item("G", Grp(<<Item("k", IntV("2"))>>)), Item("o", Obj(<<Item("y", One)>>))>>),
             Mod(<<>>), Mod(<<Item("empty_group", Grp(<<>>))>>) }
Modules == UNION { Shapes(v) : v \in Values } \cup Special

VARIABLE m
Init == m \in Modules
Next == FALSE /\ m' = m
Spec == Init /\ [][Next]_m
Encs == {"PVL", "ODL", "PDS3", "ISIS"}
(* Upper-casing names (ODL, PDS3) can make two different keys of one group equal; under PDS3 the group is then no longer a
   valid PDS group and becomes an OBJECT on the NEXT round trip.  This is the one place where the documented normalisations
   do not compose idempotently (a design-level finding, listed as F-C07-case-colliding-keys); the theorem excludes it. *)
RECURSIVE CaseCollision(_)
CaseCollision(n) == \/ (n.t = "PVLGroup" /\ \E i, j \in 1..Len(n.xs) : i # j /\ n.xs[i].s # n.xs[j].s /\ UpperSeq(n.xs[i].s) = UpperSeq(n.xs[j].s))
                    \/ \E k \in 1..Len(n.xs) : CaseCollision(n.xs[k])
NormIdempotent == \A enc \in Encs : \A p \in {enc, "OMNI"} :
   (enc = "PDS3" /\ CaseCollision(m)) \/ NormModule(enc, p, NormModule(enc, p, m)) = NormModule(enc, p, m)
NonIdempotentOnlyThere == CaseCollision(m) => NormModule("PDS3", "PDS3", NormModule("PDS3", "PDS3", m)) # NormModule("PDS3", "PDS3", m)
RECURSIVE NoStrTimeGroup(_)
NoStrTimeGroup(n) == n.t \notin {"str", "time", "datetime", "PVLGroup"} /\ \A k \in 1..Len(n.xs) : NoStrTimeGroup(n.xs[k])
PvlKeepsEverything == NormModule("PVL", "PVL", m) = LET RECURSIVE Z(_)
                                                         Z(n) == IF n.t \in {"time", "datetime"} /\ ZoneSuffix(n.s) = S("naive")
                                                                 THEN N(n.t, WithZone(n.s, S("utc")), <<>>)
                                                                 ELSE N(n.t, n.s, [k \in 1..Len(n.xs) |-> Z(n.xs[k])])
                                                     IN Z(m)
EmitCase == Emit => PrintT(ToJson([m |-> m]))
=============================================================================
