------------------------------- MODULE MC_Chars -------------------------------
(* C15.  (1) The character tables: prints, per dialect, the maximal ranges of    *)
(* allowed code points over 0..1114111 computed from Allowed(d, .) at the range   *)
(* boundaries the specifications name.  (2) Positions: a code point c placed at   *)
(* each kind of position of a small label (parameter name, unquoted value,        *)
(* quoted string, comment, units, between statements, glued to a token, after     *)
(* END, on a later line); prints the text and the reference outcome per dialect.  *)
EXTENDS PvlLoader, Json
CONSTANTS CodePoints, Emit

Templates == <<
  << S("ab"), S("cd = 1") \o <<10>> \o S("END") \o <<10>> >>,                              \* parameter name
  << S("k = v"), S("w") \o <<10>> \o S("END") \o <<10>> >>,                                \* unquoted value
  << S("k = \"x y"), S("z\"") \o <<10>> \o S("END") \o <<10>> >>,                          \* quoted string
  << S("/* c "), S(" d */ k = 1") \o <<10>> \o S("END") \o <<10>> >>,                      \* comment
  << S("k = 1 <m"), S("s>") \o <<10>> \o S("END") \o <<10>> >>,                            \* units
  << S("k = 1") \o <<10>>, <<10>> \o S("j = 2") \o <<10>> \o S("END") \o <<10>> >>,        \* between statements
  << S("k = 1"), <<10>> \o S("END") \o <<10>> >>,                                          \* glued to a value
  << S("k = 1") \o <<10>> \o S("END") \o <<10>>, S("x") >>,                                \* after END
  << S("k = 1") \o <<10>> \o S("END"), S("x") >>,                                          \* glued to END
  << S("x = 0") \o <<13, 10>> \o S("y = 'q") \o <<10>> \o S("r"), S("' z = 2 END") >>,     \* third line, inside a multi-line string
  << S("GROUP = g") \o <<10>> \o S("  a = ("), S(", 2)") \o <<10>> \o S("END_GROUP") \o <<10>> \o S("END") >>,  \* in a sequence
  << S("x = 1") \o <<10>> \o S("GROUP = "), S("g") \o <<10>> \o S("  a = 1") \o <<10>> \o S("END_GROUP") \o <<10>> \o S("y = 2") \o <<10>> \o S("END") >>,   \* before a block name
  << S("OBJECT "), S("= g") \o <<10>> \o S("  a = 1") \o <<10>> \o S("END_OBJECT") \o <<10>> \o S("END") >>,                      \* before the '=' of a begin statement
  << S("GROUP = g a = 1 END_GROUP "), S(" b = 2 END") >>,                                                              \* after an end keyword
  << S("GROUP = g a = 1 END_GROUP = "), S("g b = 2 END") >>,                                                           \* before the name of an end statement
  << S("a = {1, "), S("2} b = <") >>,                                                                                  \* in a set
  << S("a = 1 <m> b"), S(" = 2 END") >>,                                                                               \* after a name, before '='
  << <<>>, S("a = 1") \o <<10>> \o S("END") \o <<10>> >>,                                                               \* very first character, glued to a name
  << <<>>, <<32>> \o S("a = 1 END") >>,                                                                                \* very first character, alone
  << S("a = 1 "), <<>> >>,                                                                                              \* very last character
  << S("a = 1") \o <<13>> \o S("b = 2") \o <<13>> \o S("c = "), <<10>> \o S("END") >>,                                    \* after lone carriage returns (they do not count as lines)
  << S("a = 1") \o <<13, 10>> \o S("b = 'x") \o <<13, 10>> \o S("y' c = 3 "), S(" END") >>                              \* after CR-LF line ends, one of them inside a string
>>
VARIABLES tpl, cp
Init == tpl \in 1..Len(Templates) /\ cp \in CodePoints
Next == FALSE /\ UNCHANGED <<tpl, cp>>
Spec == Init /\ [][Next]_<<tpl, cp>>
Text == Templates[tpl][1] \o <<cp>> \o Templates[tpl][2]
EmitCase == Emit => PrintT(ToJson([tpl |-> tpl, cp |-> cp, text |-> Text, o |-> [d \in Dialects |-> Load(d, Text)]]))

(* theorems about the tables *)
Strict == {"PVL", "ODL", "PDS3", "ISIS"}
OmniAcceptsAll == Allowed("OMNI", cp)
AsciiIffOdl == (Allowed("ODL", cp) <=> cp <= 127) /\ (Allowed("PDS3", cp) <=> cp <= 127)
PvlLatin1 == Allowed("PVL", cp) <=> (cp <= 255 /\ ~(cp \in 0..8) /\ ~(cp \in 14..31) /\ ~(cp \in 127..159))
IsisAsPvl == Allowed("ISIS", cp) = Allowed("PVL", cp)
(* a disallowed character anywhere before END is a lexical rejection at exactly that character *)
BadCharRejected == \A d \in Strict : (~Allowed(d, cp) /\ tpl \notin {8, 9}) =>
     LET o == Load(d, Text) IN o.verdict = "reject" /\ o.kind = "lex" /\ o.why = "char" /\ o.pos = Len(Templates[tpl][1])
AfterEndIgnored == \A d \in Dialects : tpl = 8 => Load(d, Text).verdict = "accept"
=============================================================================
