SPECIFICATION Spec
CONSTANT MaxLen = 5
CONSTANT Version = "prefix"
INVARIANT OnlyDocumented
INVARIANT NothingSkipped
PROPERTY Termination
CHECK_DEADLOCK FALSE
