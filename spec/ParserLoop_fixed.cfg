SPECIFICATION Spec
CONSTANT MaxLen = 5
CONSTANT Version = "fixed"
INVARIANT OnlyDocumented
INVARIANT NothingSkipped
PROPERTY Termination
CHECK_DEADLOCK FALSE
