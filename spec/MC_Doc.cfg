SPECIFICATION Spec
CONSTANT Dialect = "PVL"
CONSTANT MaxStmts = 2
CONSTANT Profile = "spell"
CONSTANT Emit = FALSE
INVARIANT RefReadsGenerated
INVARIANT EmitCase
CHECK_DEADLOCK FALSE
