SPECIFICATION Spec
INVARIANT Verdict
CHECK_DEADLOCK FALSE
