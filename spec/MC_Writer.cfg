SPECIFICATION Spec
CONSTANT Emit = FALSE
INVARIANT WriterRoundTrips
\* INVARIANT EmitW
CHECK_DEADLOCK FALSE
