------------------------------ MODULE MC_Loader ------------------------------
(* Bounded exhaustive exploration of the reference loader over characters:     *)
(* every string of length <= MaxLen over the alphabet Sigma (a constant set of *)
(* code points).  Each state prints the string and, per dialect, the outcome   *)
(* the reference assigns to it.                                                *)
EXTENDS PvlLoader, Json
CONSTANTS MaxLen, SigmaName, Emit, DialectSet

Sigma == CASE SigmaName = "core" -> {97, 69, 78, 68, 49, 61, 32, 10, 59, 40, 41, 123, 44, 34, 60, 62, 35, 45}
              \* a E N D 1 = SP LF ; ( ) { , " < > # -
           [] SigmaName = "ext" -> {97, 49, 61, 32, 39, 125, 47, 42, 43, 46, 58, 95, 9, 13, 0, 233, 1, 8232, 84, 101}
              \* a 1 = SP ' } / * + . : _ HT CR NUL e-acute U+0001 U+2028 T e
           [] SigmaName = "cmt" -> {47, 42, 35, 10, 32, 97, 61, 49}
              \* / * # LF SP a = 1      (comment delimiters: overlapping, nested, unterminated, '#' to end of line)
           [] SigmaName = "num" -> {49, 54, 45, 43, 46, 58, 35, 101, 84, 90, 95, 97, 39, 32, 61}
              \* 1 6 - + . : # e T Z _ a ' SP =
VARIABLES text
Init == text = <<>>
Next == Len(text) < MaxLen /\ \E c \in Sigma : text' = Append(text, c)
Spec == Init /\ [][Next]_text

Summary(o) == o
Case == [text |-> text, o |-> [d \in DialectSet |-> Summary(Load(d, text))]]
EmitCase == Emit => PrintT(ToJson(Case))
(* the reference is total: every text has a verdict in every dialect *)
Total == \A d \in DialectSet : Load(d, text).verdict \in {"accept", "reject", "unspec"}
=============================================================================
