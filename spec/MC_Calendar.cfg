SPECIFICATION Spec
INVARIANT CalendarLemma
INVARIANT EmitRow
CHECK_DEADLOCK FALSE
