---------------------------- MODULE MC_MultiDict ----------------------------
(* Bounded exhaustive exploration of the reference multi-dict: every history  *)
(* of at most D operations drawn from OpSet, from the empty container.        *)
(* Mode "hist": carries the history and prints every maximal one as a replay  *)
(* case (S->C).  Mode "obs": no history variable; prints the observer record  *)
(* of every distinct list once (the expectation table for the replay) and     *)
(* checks the design-level theorems about the observers.                      *)
EXTENDS MultiDict, Json
CONSTANTS D, Mode, MaxLen, OpSubset

K == {"a", "b"}
V == {"x", "y"}
ProbeK == K \cup {"z"}
ProbeV == V \cup {"w"}

Op(op, k, v, i, ps, form) == [op |-> op, k |-> k, v |-> v, i |-> i, ps |-> ps, form |-> form]
P1 == << <<"a", "x">>, <<"b", "y">> >>
P2 == << <<"b", "x">>, <<"a", "y">> >>
OpSet ==
       { Op("append", k, v, 0, <<>>, "") : k \in K, v \in V }
  \cup { Op("setitem", k, v, 0, <<>>, "") : k \in K, v \in V }
  \cup { Op(o, k, "", 0, <<>>, "") : o \in {"delitem", "popkey", "popall", "discard"}, k \in K }
  \cup { Op(o, k, "d", 0, <<>>, "") : o \in {"popkey_d", "popall_d"}, k \in K }
  \cup { Op(o, "", "", 0, <<>>, "") : o \in {"pop", "popitem", "clear"} }
  \cup { Op("setdefault", k, v, 0, <<>>, "") : k \in K, v \in {"y"} }
  \cup { Op("insert", "", "", i, << p >>, "kv") : i \in {0, 1, -1, 5, -5}, p \in { <<"a","x">>, <<"b","y">> } }
  \cup { Op("insert", "", "", i, << <<"a","y">> >>, "pair") : i \in {0, -1} }
  \cup { Op("insert", "", "", i, P1, "pairs") : i \in {0, 1, -1, -2, 5} }
  \cup { Op("insert", "", "", i, P2, "pairs") : i \in {1, -1} }
  \cup { Op("insert", "", "", 0, << <<"a","y">> >>, "map") }
  \cup { Op(o, k, "", i, << <<"b","x">> >>, "pair") : o \in {"insert_before", "insert_after"}, k \in K, i \in {0, 1, -1} }
  \cup { Op("insert_after", "a", "", 0, P2, "pairs") }
  \cup { Op("extend", "", "", 0, P1, "pairs"), Op("extend", "", "", 0, << <<"b","x">> >>, "map"),
         Op("extend", "", "", 0, << <<"a","y">> >>, "kw") }
  \cup { Op("update", "", "", 0, << <<"a","y">>, <<"b","y">> >>, "pairs"),
         Op("update", "", "", 0, << <<"a","x">> >>, "map"),
         Op("update", "", "", 0, << <<"b","x">> >>, "kw") }

(* a core subset for deeper histories *)
CoreSet == { Op("append", "a", "x", 0, <<>>, ""), Op("append", "b", "y", 0, <<>>, ""), Op("append", "a", "y", 0, <<>>, ""),
             Op("setitem", "a", "y", 0, <<>>, ""), Op("setitem", "b", "x", 0, <<>>, ""),
             Op("delitem", "a", "", 0, <<>>, ""), Op("pop", "", "", 0, <<>>, ""), Op("popitem", "", "", 0, <<>>, ""),
             Op("popkey", "a", "", 0, <<>>, ""), Op("popall_d", "b", "d", 0, <<>>, ""), Op("setdefault", "b", "y", 0, <<>>, ""),
             Op("insert", "", "", -1, P1, "pairs"), Op("insert", "", "", 0, << <<"a", "x">> >>, "kv"), Op("insert", "", "", 1, P2, "pairs"),
             Op("insert_before", "a", "", 0, << <<"b", "x">> >>, "pair"), Op("insert_after", "a", "", -1, << <<"b", "x">> >>, "pair"),
             Op("extend", "", "", 0, << <<"b", "x">> >>, "map"), Op("update", "", "", 0, << <<"a", "y">>, <<"b", "y">> >>, "pairs"),
             Op("discard", "b", "", 0, <<>>, ""), Op("clear", "", "", 0, <<>>, "") }
Ops == IF OpSubset = "core" THEN CoreSet ELSE OpSet
VARIABLES items, hist
vars == <<items, hist>>

AllLists == UNION { [1..m -> K \X V] : m \in 0..MaxLen }
Init == /\ hist = <<>>
        /\ IF Mode = "table" THEN items \in AllLists ELSE items = <<>>

Do(o) == LET r == Apply(items, o) IN
         /\ items' = r.items
         /\ hist' = IF Mode = "hist"
                    THEN Append(hist, [o |-> o, ret |-> r.ret, post |-> r.items])
                    ELSE <<>>

Next == /\ Mode # "table"
        /\ (Mode = "hist" => Len(hist) < D)
        /\ \E o \in Ops : Do(o)
Spec == Init /\ [][Next]_vars

Bound == Len(items) <= MaxLen

(* emission *)
EmitHist == (Mode = "hist" /\ Len(hist) = D) => PrintT(ToJson(hist))
EmitObs  == (Mode = "table") => PrintT(ToJson([list |-> items, obs |-> Obs(items, ProbeK, ProbeV)]))

(* design-level theorems about the observers (checked in every reachable state) *)
ObsCoherent == LET O == Obs(items, ProbeK, ProbeV) IN
  /\ O.len = Len(O.list) /\ O.len = Len(O.keys) /\ O.len = Len(O.values)
  /\ \A j \in 1..O.len : O.list[j] = <<O.keys[j], O.values[j]>>
  /\ \A k \in ProbeK :
       /\ O.key[k].in <=> (O.key[k].kidx >= 0)
       /\ O.key[k].in <=> (O.key[k].get # "!KeyError")
       /\ O.key[k].in => /\ O.key[k].get = O.key[k].all[1]
                         /\ O.key[k].ki[1] = O.key[k].kidx
                         /\ O.list[O.key[k].kidx + 1] = <<k, O.key[k].get>>
                         /\ Len(O.key[k].all) = Cardinality({j \in 1..O.len : O.keys[j] = k})
       /\ ~O.key[k].in => O.key[k].ki = <<-1, -1, -1, -1>>
  /\ O.at[1] = IdxErr /\ O.at[Len(O.at)] = IdxErr
  /\ \A j \in 1..O.len : O.at[O.len + 1 + j] = O.list[j] /\ O.at[1 + j] = O.list[j]
(* documented effects, as action properties *)
SetItemEffect == [][ \A o \in OpSet : (o.op = "setitem" /\ items' = Apply(items, o).items) =>
                       /\ Cardinality({j \in 1..Len(items') : items'[j][1] = o.k}) = 1
                       /\ Without(items', o.k) = Without(items, o.k) ]_items
PopEffect == [][ \A o \in OpSet : (o.op = "pop" /\ items # <<>> /\ items' = Apply(items, o).items) =>
                       items = Append(items', <<Apply(items, o).ret.a, Apply(items, o).ret.b>>) ]_items
=============================================================================
