------------------------------ MODULE PvlWriter ------------------------------
(***************************************************************************)
(* A reference WRITER per dialect, the dual of PvlLoader: Write(E, m) is    *)
(* the text a conforming encoder with default options produces for the      *)
(* value tree m, or Refuse when the dialect cannot carry m.  It is the      *)
(* design-level half of C01/C02/C12: TLC checks (MC_Writer) that            *)
(*     Load(E,    Write(E, m)).tree = NormModule(E, E,    m)                *)
(*     Load(OMNI, Write(E, m)).tree = NormModule(E, OMNI, m)                *)
(* for every generated module, i.e. that the dialects as specified here DO  *)
(* round-trip up to the documented normalisations.  Line wrapping is not    *)
(* modelled: a statement that does not fit the width is "not modelled".     *)
(* The real encoders' output is compared with Write literally only as a     *)
(* binding diagnostic (never a verdict): quoting choices, number and date   *)
(* spellings, alignment and keywords are fixed here the way the property    *)
(* and the dialect tables fix them.                                         *)
(***************************************************************************)
EXTENDS PvlLoader, PvlNorm

Refuse == <<0>>                       \* (no text contains NUL in the strict dialects; used as a marker value)
IsRefuse(x) == x = Refuse
Width == 80
Indent == 2
NLof(E) == IF E \in {"ODL", "PDS3"} THEN <<13, 10>> ELSE <<10>>
Delim(E) == IF E = "PVL" THEN <<59>> ELSE <<>>

RECURSIVE JoinWith(_, _)
JoinWith(parts, sep) == IF parts = <<>> THEN <<>> ELSE IF Len(parts) = 1 THEN parts[1] ELSE parts[1] \o sep \o JoinWith(Tail(parts), sep)
AnyRefuse(parts) == \E k \in 1..Len(parts) : IsRefuse(parts[k])
Spaces(n) == [k \in 1..n |-> 32]

(* ---- strings ---- *)
HasCp(s, c) == \E k \in 1..Len(s) : s[k] = c
IsPrintable(s) == \A k \in 1..Len(s) : s[k] \in 32..126          \* (ASCII subset of str.isprintable, enough for the lexicon)
IsSymbol(s) == /\ ~HasCp(s, 39) /\ \A k \in 1..Len(s) : s[k] \notin FormatEffectors
               /\ Len(s) <= Width \div 2 /\ s # <<>> /\ IsPrintable(s)
Quoted(s) == IF ~HasCp(s, 34) THEN <<34>> \o s \o <<34>> ELSE IF ~HasCp(s, 39) THEN <<39>> \o s \o <<39>> ELSE Refuse
(* may s be written bare?  only if both the dialect's own reader and the default reader take it back as the same string *)
Bare(E, s) == /\ Classify(E, s).c = "unq" /\ Classify("OMNI", s).c = "unq"
              /\ s[Len(s)] # 45                                   \* a trailing dash is a line continuation for some readers
              /\ (E \in {"ODL", "PDS3"} => IsIdentifier(s))
              /\ ~\E h \in 1..Len(s) : s[h] \in PyWS \ WS             \* (what a reader does with a no-break space etc. in a bare word is left open)
WriteStr(E, s) ==
   IF \E k \in 1..Len(s) : ~Allowed(E, s[k]) THEN Refuse
   ELSE IF s # <<>> /\ Bare(E, s) THEN s
   ELSE IF E \in {"ODL", "PDS3"} /\ IsSymbol(s) THEN <<39>> \o s \o <<39>>
   ELSE Quoted(s)

(* ---- temporal values: node text "....|zone" ---- *)
Bar(s) == CHOOSE k \in 1..Len(s) : s[k] = 124
Body(s) == SubSeq(s, 1, Bar(s) - 1)
ZoneOf(s) == ZoneSuffix(s)
(* drop what the encoders drop: seconds when zero and no fraction; trailing ".000000" *)
TimeBody(E, b) ==      \* b = HH:MM:SS.ffffff
   LET hm == SubSeq(b, 1, 5)  ss == SubSeq(b, 7, 8)  ff == SubSeq(b, 10, 15)
       zeroF == ff = S("000000")
   IN IF E = "PDS3" THEN
         (IF ~zeroF THEN (IF SubSeq(ff, 4, 6) # S("000") THEN Refuse ELSE hm \o <<58>> \o ss \o <<46>> \o SubSeq(ff, 1, 3))
          ELSE IF ss # S("00") THEN hm \o <<58>> \o ss ELSE hm)
      ELSE IF ~zeroF THEN hm \o <<58>> \o ss \o <<46>> \o ff
      ELSE IF ss # S("00") THEN hm \o <<58>> \o ss ELSE hm
OffsetText(z) ==       \* z = "off+330" | "off-60"
   LET neg == z[4] = 45
       mins == NumVal(SubSeq(z, 5, Len(z)))
       h == mins \div 60  mi == mins % 60
   IN IF h > 12 THEN Refuse
      ELSE (IF neg THEN <<45>> ELSE <<43>>) \o Pad(h, 2) \o (IF mi = 0 THEN <<>> ELSE <<58>> \o Pad(mi, 2))
WriteTime(E, b, z) ==
   LET tb == TimeBody(E, b) IN
   IF IsRefuse(tb) THEN Refuse
   ELSE IF z = S("naive") THEN (IF E = "ODL" THEN Refuse ELSE IF E = "PDS3" THEN tb \o <<90>> ELSE tb)
   ELSE IF z = S("utc") THEN (IF E \in {"ODL", "PDS3"} THEN tb \o <<90>> ELSE tb)
   ELSE IF E # "ODL" THEN Refuse                       \* only ODL can write a zone offset
   ELSE LET o == OffsetText(z) IN IF IsRefuse(o) THEN Refuse ELSE tb \o o

(* ---- values ---- *)
IsNumberNode(v) == v.t \in {"int", "real"}
IsScalar(v) == v.t \in {"int", "real", "str", "date", "time", "datetime"} \/ (v.t = "qty" /\ IsNumberNode(v.xs[1]))
UnitsOK(E, u) == ~HasCp(u, 60) /\ ~HasCp(u, 62)
RECURSIVE WriteValue(_, _)
WriteColl(E, v, open, close) ==
   LET parts == [k \in 1..Len(v.xs) |-> WriteValue(E, v.xs[k])]
   IN IF AnyRefuse(parts) THEN Refuse ELSE <<open>> \o JoinWith(parts, <<44, 32>>) \o <<close>>
WriteValue(E, v) ==
   CASE v.t = "null" -> S("NULL")
     [] v.t = "bool" -> IF v.s = S("true") THEN S("TRUE") ELSE S("FALSE")
     [] v.t = "int" -> v.s
     [] v.t = "real" -> IF DecimalKind(v.s) = "real" THEN v.s ELSE Refuse        \* no numeral for inf / nan in the grammars
     [] v.t = "str" -> WriteStr(E, v.s)
     [] v.t = "date" -> v.s
     [] v.t = "time" -> WriteTime(E, Body(v.s), ZoneOf(v.s))
     [] v.t = "datetime" -> LET tt == WriteTime(E, SubSeq(Body(v.s), 12, Len(Body(v.s))), ZoneOf(v.s))
                            IN IF IsRefuse(tt) THEN Refuse ELSE SubSeq(v.s, 1, 10) \o <<84>> \o tt
     [] v.t = "qty" -> LET inner == WriteValue(E, v.xs[1]) IN
                       IF IsRefuse(inner) \/ ~UnitsOK(E, v.s) \/ (E \in {"ODL", "PDS3"} /\ ~IsNumberNode(v.xs[1])) THEN Refuse
                       ELSE inner \o <<32, 60>> \o v.s \o <<62>>
     [] v.t = "seq" -> IF E \in {"ODL", "PDS3"} /\ (v.xs = <<>>
                             \/ \E k \in 1..Len(v.xs) : (IF v.xs[k].t = "seq" THEN \E h \in 1..Len(v.xs[k].xs) : ~IsScalar(v.xs[k].xs[h])
                                                        ELSE ~IsScalar(v.xs[k]))) THEN Refuse
                       ELSE WriteColl(E, v, 40, 41)
     [] v.t = "set" -> IF E \in {"ODL", "PDS3"} /\ (\E k \in 1..Len(v.xs) : ~IsScalar(v.xs[k])) THEN Refuse
                       ELSE IF E = "PDS3" /\ (\E k \in 1..Len(v.xs) : ~(v.xs[k].t = "int" \/ (v.xs[k].t = "str" /\ IsSymbol(v.xs[k].s)))) THEN Refuse
                       ELSE WriteColl(E, v, 123, 125)
     [] OTHER -> Refuse

(* ---- statements ---- *)
IsOdlKey(k) == LET body == IF k # <<>> /\ k[1] = 94 THEN Tail(k) ELSE k
                   colon == {h \in 1..Len(body) : body[h] = 58}
               IN Len(k) <= 30 /\
                  (IF colon = {} THEN IsIdentifier(body)
                   ELSE LET c == CHOOSE h \in colon : \A g \in colon : h <= g
                        IN IsIdentifier(SubSeq(body, 1, c - 1)) /\ IsIdentifier(SubSeq(body, c + 1, Len(body))))
(* a name must be readable as a name by the dialect's reader and by the default reader, and must not end in a dash
   (a line continuation for the default reader when it ends the line) *)
NameOK(E, k) == k # <<>> /\ k[Len(k)] # 45 /\ NameCapable(E, k) /\ NameCapable("OMNI", k)
                /\ ~EqFold(k, "NULL") /\ ~EqFold(k, "TRUE") /\ ~EqFold(k, "FALSE")
KeyText(E, k) == IF ~NameOK(E, k) THEN Refuse
                 ELSE IF E \in {"ODL", "PDS3"} THEN (IF IsOdlKey(k) THEN UpperSeq(k) ELSE Refuse) ELSE k
BeginKw(E, cls) == CASE E = "PVL" -> IF cls = "PVLGroup" THEN S("BEGIN_GROUP") ELSE S("BEGIN_OBJECT")
                     [] E = "ISIS" -> IF cls = "PVLGroup" THEN S("Group") ELSE S("Object")
                     [] OTHER -> IF cls = "PVLGroup" THEN S("GROUP") ELSE S("OBJECT")
EndKwOf(E, cls) == CASE E = "ISIS" -> IF cls = "PVLGroup" THEN S("End_Group") ELSE S("End_Object")
                     [] OTHER -> IF cls = "PVLGroup" THEN S("END_GROUP") ELSE S("END_OBJECT")
MaxKey(xs) == LET L == { Len(xs[k].s) : k \in { h \in 1..Len(xs) : ~IsBlock(xs[h].xs[1]) } }
              IN IF L = {} THEN 0 ELSE CHOOSE x \in L : \A y \in L : y <= x
PadTo(k, n) == k \o Spaces(n - Len(k))

RECURSIVE WriteItems(_, _, _)
(* lines of the statements of one block at nesting level lv; Refuse if any part is refused; <<1>> if a line is too long *)
TooLong == <<1>>
WriteItems(E, xs, lv) ==
   LET mk == MaxKey(xs)
       one(it) ==
          LET v == it.xs[1] IN
          IF IsBlock(v) THEN
               LET inner == WriteItems(E, v.xs, lv + 1) IN
               IF ~NameOK(E, it.s) THEN <<Refuse>>
               ELSE IF inner = <<Refuse>> \/ inner = <<TooLong>> THEN inner
               ELSE << Spaces(lv * Indent) \o BeginKw(E, v.t) \o S(" = ") \o it.s \o Delim(E) >>
                    \o (IF inner = <<>> THEN << <<>> >> ELSE inner)
                    \o << Spaces(lv * Indent) \o EndKwOf(E, v.t) \o S(" = ") \o it.s \o Delim(E) >>
          ELSE LET k == KeyText(E, it.s)  val == WriteValue(E, v) IN
               IF IsRefuse(k) \/ IsRefuse(val) THEN <<Refuse>>
               ELSE LET line == Spaces(lv * Indent) \o PadTo(k, mk) \o S(" = ") \o val \o Delim(E) IN
                    IF Len(line) + Len(NLof(E)) > Width \/ LFsIn(val, 1, Len(val) + 1) > 0 THEN <<TooLong>> ELSE << line >>
       RECURSIVE Go(_)
       Go(k) == IF k > Len(xs) THEN <<>>
                ELSE LET a == one(xs[k]) IN
                     IF a = <<Refuse>> \/ a = <<TooLong>> THEN a
                     ELSE LET rest == Go(k + 1) IN IF rest = <<Refuse>> \/ rest = <<TooLong>> THEN rest ELSE a \o rest
   IN Go(1)

(* Write: the text, Refuse, or TooLong (not modelled) *)
Write(E, m0) ==
   LET m == IF E = "PDS3" THEN TopConvert(m0) ELSE m0
       RECURSIVE PdsBlocks(_)
       PdsBlocks(n) == N(IF E = "PDS3" /\ n.t = "PVLGroup" /\ ~ValidPDSGroup(n) THEN "PVLObject" ELSE n.t, n.s,
                         [k \in 1..Len(n.xs) |-> PdsBlocks(n.xs[k])])
       lines0 == WriteItems(E, PdsBlocks(m).xs, 0)
       lines == IF lines0 = <<>> THEN << <<>> >> ELSE lines0        \* an empty module is written as an empty line
   IN IF lines = <<Refuse>> THEN Refuse
      ELSE IF lines = <<TooLong>> THEN TooLong
      ELSE JoinWith(lines \o << S("END") \o Delim(E) >>, NLof(E)) \o (IF E \in {"ODL", "PDS3"} THEN NLof(E) ELSE <<>>)
=============================================================================
